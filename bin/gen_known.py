#!/usr/bin/env python3
"""Regenerate rules/known_functions.json (the reviewed function inventory: keys) and rules/known_signatures.json
(key -> kind, inputs, output, exported) from the CURRENT /repo tree.  Run only after reviewing the tree: functions
not in the inventory are treated as new helpers (inlined into their callers / matched to a moved or renamed original)."""
import json, os, sys
sys.path.insert(0, os.path.dirname(os.path.dirname(os.path.abspath(__file__))))
from pqa.engine import facts_for
HERE = os.path.dirname(os.path.dirname(os.path.abspath(__file__)))
import re
keys = set()
sigs = {}
for cfg in ("std", "serde", "nostd"):
    text = open(facts_for("/repo", cfg)).read()
    text = re.sub(r'(?<![A-Za-z0-9_])(?:core|alloc)::', 'std::', text)
    j = json.loads(text)
    for f in j["fns"]:
        if f.get("kind") == "Closure":
            continue
        keys.add(f["key"])
        callees = set()
        fam = [g for g in j["fns"] if g["key"] == f["key"] or (g.get("kind") == "Closure" and (g.get("parent_fn") or "").startswith(f["key"]))]
        for g in fam:
            for b in (g.get("body") or {}).get("blocks", []):
                t = b["term"]
                if t["k"] == "call" and "func" in t:
                    fk = t["func"]
                    r = fk.get("resolved")
                    k = r["key"] if r and r.get("local") else (fk["key"] if fk.get("local") else None)
                    if k:
                        callees.add(k)
        e = sigs.setdefault(f["key"], {"kind": f.get("kind"), "inputs": [t["s"] for t in f.get("inputs", [])],
                                       "output": (f.get("output") or {}).get("s"), "exported": bool(f.get("exported")),
                                       "name": f.get("name"), "path": f.get("path"), "callees": []})
        e["callees"] = sorted(set(e["callees"]) | callees)
old = set(json.load(open(os.path.join(HERE, "rules", "known_functions.json"))))
print("inventory: %d keys (was %d); added %s; removed %s" % (len(keys), len(old), sorted(keys - old)[:10], sorted(old - keys)[:10]))
adts = set()
shapes = {}
sys.path.insert(0, HERE)
from pqa.inline import adt_shape
for cfg in ("std", "serde", "nostd"):
    text = open(facts_for("/repo", cfg)).read()
    text = re.sub(r'(?<![A-Za-z0-9_])(?:core|alloc)::', 'std::', text)
    for a in json.loads(text)["adts"]:
        adts.add(a["path"])
        shapes[a["path"]] = adt_shape(a)
json.dump(shapes, open(os.path.join(HERE, "rules", "known_adt_shapes.json"), "w"), indent=0, sort_keys=True)
json.dump(sorted(adts), open(os.path.join(HERE, "rules", "known_adts.json"), "w"), indent=0)
closures = set()
for cfg in ("std", "serde", "nostd"):
    text = open(facts_for("/repo", cfg)).read()
    text = re.sub(r'(?<![A-Za-z0-9_])(?:core|alloc)::', 'std::', text)
    for f in json.loads(text)["fns"]:
        if f.get("kind") == "Closure":
            closures.add(f["key"])
json.dump(sorted(closures), open(os.path.join(HERE, "rules", "known_closures.json"), "w"), indent=0)
json.dump(sorted(keys), open(os.path.join(HERE, "rules", "known_functions.json"), "w"), indent=0)
json.dump(sigs, open(os.path.join(HERE, "rules", "known_signatures.json"), "w"), indent=0, sort_keys=True)
