#!/bin/bash
# run ALL property checks against each independent benign refactoring (selftest/benign2); print alarms
ALL="${ALL:-C01 C02 C03 C04 C05 C06 C07 C08 C09 C10 C11 C12 C13 C14 C15 C16 C17 C18}"
run1() { p=$1; out=$(/verif/bin/mutrun.sh $p $ALL 2>&1); if echo "$out" | grep -qE '^VIOLATION|CHECK-ERROR|PATCH-FAILED|Traceback'; then echo "$(basename $p) ALARM"; echo "$out" | grep -E 'rule=|CHECK-ERROR|PATCH-FAILED|Error' | sed 's/ at src.*\]: /: /' | cut -c1-230 | sort -u | head -${MAXL:-10}; else echo "$(basename $p) silent"; fi; }
export -f run1; export ALL
ls ${1:-/verif/selftest/benign2}/*.patch | xargs -P 6 -I{} bash -c 'run1 {}'
