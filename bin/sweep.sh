#!/bin/bash
# usage: sweep.sh [dir with <PID>/m*/patch.diff]  -- run each mutant against the check of its own property
D="${1:-/verif/seeded_raw}"
for m in $D/*/m*; do
  pid=$(basename $(dirname $m)); 
  out=$(/verif/bin/mutrun.sh $m/patch.diff $pid 2>&1)
  if echo "$out" | grep -q '^VIOLATION'; then r=CAUGHT; elif echo "$out" | grep -q 'CHECK-ERROR'; then r=CHECK-ERROR; elif echo "$out" | grep -q PATCH-FAILED; then r=PATCH-FAILED; else r=MISSED; fi
  rules=$(echo "$out" | grep -o 'rule=[A-Z-]*' | sort -u | tr '\n' ' ')
  echo "$pid/$(basename $m) $r $rules"
done
