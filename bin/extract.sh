#!/bin/bash
# usage: extract.sh <srcdir> <config: std|serde|nostd> <outdir> [crate name, default priority_queue]
# Runs the pqfacts driver over <srcdir> (a checkout of priority-queue) with the real manifest,
# in a fresh target dir outside /repo and /verif.  Writes <outdir>/priority_queue.json.
set -u
SRC="$1"; CFG="$2"; OUT="$3"; CRATE="${4:-priority_queue}"
HERE="$(cd "$(dirname "$0")/.." && pwd)"
DRV="$HERE/pqfacts/target/release/pqfacts"
[ -x "$DRV" ] || { echo "extract: driver not built (run setup)" >&2; exit 3; }
SYSROOT="$(rustc +nightly --print sysroot)"
TGT="$(mktemp -d /tmp/pqfacts-tgt.XXXXXX)"
trap 'rm -rf "$TGT"' EXIT
mkdir -p "$OUT"
rm -f "$OUT/$CRATE.json"
case "$CFG" in
  std)   FEAT=() ;;
  serde) FEAT=(--features serde) ;;
  nostd) FEAT=(--no-default-features) ;;
  dbg)   FEAT=() ;;   # the default build as `cargo test` / a dev profile compiles it: debug assertions on
  *) echo "extract: unknown config $CFG" >&2; exit 3 ;;
esac
cd "$SRC" || exit 3
LD_LIBRARY_PATH="$SYSROOT/lib" \
RUSTFLAGS="-Zmir-opt-level=0 -Awarnings -Cdebug-assertions=$([ "$CFG" = dbg ] && echo on || echo off) -Coverflow-checks=on" \
RUSTC_WORKSPACE_WRAPPER="$DRV" \
CARGO_TARGET_DIR="$TGT" CARGO_NET_OFFLINE=true \
PQFACTS_OUT="$OUT" PQFACTS_CRATES="$CRATE" PQFACTS_CONFIG="$CFG" \
cargo +nightly check --offline --lib "${FEAT[@]}" >"$OUT/cargo.log" 2>&1
rc=$?
if [ $rc -ne 0 ]; then echo "extract: cargo check failed (config $CFG), see $OUT/cargo.log" >&2; tail -20 "$OUT/cargo.log" >&2; exit 2; fi
[ -s "$OUT/$CRATE.json" ] || { echo "extract: no fact file written (config $CFG)" >&2; exit 2; }
exit 0
