#!/bin/bash
# usage: verify_mutant.sh <mutant dir> ; prints one status line.  Uses a scratch worktree of /repo HEAD.
# Confirms: patch applies; suite passes with it; demo fails with it; demo passes without it.
M="$1"; NAME="$(basename $(dirname $M))-$(basename $M)"
WT=/tmp/vm-wt-$$
export CARGO_TARGET_DIR=/tmp/vm-target CARGO_NET_OFFLINE=true
git -C /repo worktree add --detach $WT HEAD >/dev/null 2>&1 || { echo "$NAME worktree-failed"; exit 1; }
cp /repo/Cargo.lock $WT/
trap 'git -C /repo worktree remove --force $WT >/dev/null 2>&1' EXIT
cd $WT
FEAT=""
grep -q 'cfg(feature = "serde")' $M/demo.rs && FEAT="--features serde"
if ! git apply $M/patch.diff 2>/tmp/vm-apply.$$; then
  if ! patch -p1 --fuzz=3 < $M/patch.diff >/tmp/vm-apply.$$ 2>&1; then echo "$NAME APPLY-FAILED $(head -3 /tmp/vm-apply.$$ | tr '\n' ' ')"; exit 0; fi
  APPLIED="applied-with-fuzz"
else APPLIED="applied"; fi
git diff > /tmp/vm-rebased-$NAME.diff
if ! cargo test --offline --no-fail-fast --workspace >/tmp/vm-suite.$$ 2>&1; then echo "$NAME $APPLIED SUITE-FAILS-WITH-PATCH $(grep -E 'FAILED|error(\[|:)' /tmp/vm-suite.$$ | head -3 | tr '\n' ' ')"; exit 0; fi
if [ -n "$FEAT" ]; then cargo test --offline --no-fail-fast $FEAT >/tmp/vm-suite.$$ 2>&1 || { echo "$NAME $APPLIED SUITE-FAILS-WITH-PATCH(serde)"; exit 0; }; fi
cp $M/demo.rs tests/demo.rs
if timeout 300 cargo test --offline $FEAT --test demo >/tmp/vm-demo.$$ 2>&1; then echo "$NAME $APPLIED DEMO-PASSES-WITH-PATCH (not a violation?)"; exit 0; fi
DEMOFAIL="$(grep -E '^test .* FAILED|SIGABRT|panicked' /tmp/vm-demo.$$ | head -2 | tr '\n' ' ')"
git checkout -- src
if ! timeout 300 cargo test --offline $FEAT --test demo >/tmp/vm-demo2.$$ 2>&1; then echo "$NAME $APPLIED DEMO-FAILS-ON-CLEAN-TREE $(grep -E 'FAILED|error' /tmp/vm-demo2.$$ | head -2| tr '\n' ' ')"; exit 0; fi
echo "$NAME $APPLIED CONFIRMED [$DEMOFAIL]"
rm -f /tmp/vm-*.$$
