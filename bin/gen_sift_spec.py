#!/usr/bin/env python3
"""Generate rules/sift_spec.json from a source tree (run by hand on a tree whose sift functions were reviewed;
NEVER run by a check).  usage: gen_sift_spec.py [src=/repo]"""
import json, os, sys
HERE = os.path.dirname(os.path.dirname(os.path.abspath(__file__)))
sys.path.insert(0, HERE)
from pqa.engine import Ctx
from pqa.rules_sift import Skel, SIFT_FNS, SPEC, tree_fn_keys, PRIM_FNS
src = sys.argv[1] if len(sys.argv) > 1 else "/repo"
ctx = Ctx(src, "quick")
out = {}
per_cfg = {}
for cfg in ("std", "serde", "nostd"):
    v = ctx.view(cfg)
    sk = Skel(v)
    for Q, names in SIFT_FNS.items():
        for n in names:
            f = v.prog.fn("%s::%s" % (Q, n))
            per_cfg.setdefault("%s::%s" % (Q, n), {})[cfg] = sk.skeleton(f)
        for k in tree_fn_keys(Q):
            per_cfg.setdefault(k, {})[cfg] = sk.skeleton(v.prog.fn(k))
    for k in PRIM_FNS:
        per_cfg.setdefault("family:" + k, {})[cfg] = sk.family_skeleton(k)
for k, d in per_cfg.items():
    vals = list(d.values())
    assert all(x == vals[0] for x in vals), "skeleton differs between configurations: " + k
    out[k] = vals[0]
json.dump(out, open(SPEC, "w"), indent=1)
print("wrote", SPEC, {k: len(v) for k, v in out.items()})
