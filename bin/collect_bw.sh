#!/bin/bash
# collect finished benign batches (agent numbers), remove their worktrees, run all 18 checks on the new patches
for n in "$@"; do
  for r in 1 2 3 4 5 6 7 8; do d=/tmp/bw-$n/refactors/r$r
    if [ -f $d/patch.diff ]; then cp $d/patch.diff /verif/selftest/benign2/a$n-r$r.patch; cp $d/README.md /verif/selftest/benign2/a$n-r$r.txt 2>/dev/null; fi
  done
  git -C /repo worktree remove --force /tmp/bw-$n 2>/dev/null
  T=$(mktemp -d /tmp/bwrun.XXXX); cp /verif/selftest/benign2/a$n-r*.patch $T/ 2>/dev/null
  MAXL=${MAXL:-8} /verif/bin/benign2.sh $T; rm -rf $T
done
