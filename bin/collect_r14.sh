#!/bin/bash
# collect finished round-14 mutants of the given property ids (e.g. 04 07 09), verify and sweep them
for i in "$@"; do
  src=/tmp/w14-C$i/mutants
  [ -d $src/m1 ] || { echo "C$i: nothing yet"; continue; }
  mkdir -p /verif/seeded_raw14/C$i
  for m in $src/m*; do [ -f $m/patch.diff ] && cp -r $m /verif/seeded_raw14/C$i/; done
  [ "${KEEP_WT:-0}" = 1 ] || git -C /repo worktree remove --force /tmp/w14-C$i 2>/dev/null
  for m in /verif/seeded_raw14/C$i/m*; do
    n="C$i-$(basename $m)"
    grep -q "^$n " /tmp/verify_r14.log 2>/dev/null || /verif/bin/verify_mutant.sh $m >> /tmp/verify_r14.log 2>&1
    v=$(grep "^$n " /tmp/verify_r14.log | head -1 | awk '{print $3}')
    out=$(/verif/bin/mutrun.sh $m/patch.diff C$i 2>&1)
    if echo "$out" | grep -q '^VIOLATION'; then r=CAUGHT; elif echo "$out" | grep -q 'CHECK-ERROR'; then r=CHECK-ERROR; else r=MISSED; fi
    echo "C$i/$(basename $m) verify=$v $r $(echo "$out" | grep -o 'rule=[A-Z-]*' | sort -u | tr '\n' ' ')"
  done
done
