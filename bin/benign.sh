#!/bin/bash
# run ALL property checks against each behaviour-preserving patch; every check must stay silent
D="${1:-/verif/selftest/benign}"
ALL="${ALL:-C01 C02 C03 C04 C05 C06 C07 C08 C09 C10 C11 C12 C13 C14 C15 C16 C17 C18}"
for p in $D/*.patch; do
  out=$(/verif/bin/mutrun.sh $p $ALL 2>&1)
  if echo "$out" | grep -qE '^VIOLATION|CHECK-ERROR|PATCH-FAILED|Traceback'; then
    echo "$(basename $p) ALARM"; echo "$out" | grep -E 'rule=|CHECK-ERROR|PATCH-FAILED|Error' | cut -c1-330 | head -12
  else echo "$(basename $p) silent"; fi
done
