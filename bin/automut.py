#!/usr/bin/env python3
"""Systematic small mutations of /repo/src (mutation-testing style), to find rule gaps the sub-agents did not look at.
  automut.py gen <outdir>          - write one patch per mutant (NNNN.diff + NNNN.txt) from the CURRENT /repo/src
  automut.py run <outdir> [jobs]   - for each patch: scratch copy, `cargo test --offline` (tests/ only); survivors of the
                                     suite are given to all 18 checks; results in <outdir>/results.tsv
Nothing here is part of any verdict; scratch copies and target dirs live under /tmp and are removed."""
import os, re, sys, subprocess, shutil, tempfile, difflib, json
from concurrent.futures import ThreadPoolExecutor

SRC = "/repo/src"
FILES = ["store.rs", "priority_queue/mod.rs", "priority_queue/iterators.rs", "double_priority_queue/mod.rs",
         "double_priority_queue/iterators.rs", "core_iterators.rs"]

OPS2 = [
    (r"\bup_heapify\(", "heapify(", "upheapify->heapify"), (r"(?<!up_)\bheapify\(", "up_heapify(", "heapify->upheapify"),
    (r"\bpeek_min\(", "peek_max(", "peekmin->peekmax"), (r"\bpeek_max\(", "peek_min(", "peekmax->peekmin"),
    (r"\.rev\(\)", "", "drop-rev"), (r"\.\.=", "..", "inclusive->exclusive"),
    (r"if !", "if ", "drop-not"), (r"\bif (?!let|!)", "if !", "add-not"),
    (r"\bparent\(", "left(", "parent->left"), (r"\bposition\b", "parent_position", "position->parent"),
    (r"\bmap_position\b", "parent_index", "mappos->parentidx"),
    (r"\blargest\b", "i", "largest->i"), (r"\bl\b(?=\))", "r", "l->r"),
    (r"\bheap\b", "qp", "heap->qp"), (r"\bqp\b", "heap", "qp->heap"),
    (r"\.0\b", ".1", "field0->1"), (r"\.1\b", ".0", "field1->0"),
    (r"Some\(priority\)", "None", "some->None"), (r"\bold_priority\b", "priority", "old->new"),
    (r"\blevel\(", "log2_fast(", "level->log2"), (r"/ 2\b", "/ 3", "div2->3"), (r"\* 2\b", "* 3", "mul2->3"),
]
OPS = [
    (r"(?<![<>=!\-])<(?![=<])(?=\s)", "<=", "lt->le"), (r"(?<![<>=!])<=(?=\s)", "<", "le->lt"),
    (r"(?<![<>=!\-])>(?![=>])(?=\s)", ">=", "gt->ge"), (r"(?<![<>=!])>=(?=\s)", ">", "ge->gt"),
    (r"(?<![<>=!\-])<(?![=<])(?=\s)", ">", "lt->gt"), (r"(?<![<>=!\-])>(?![=>])(?=\s)", "<", "gt->lt"),
    (r"==", "!=", "eq->ne"), (r"!=", "==", "ne->eq"),
    (r"\+ 1\b", "+ 2", "+1->+2"), (r"- 1\b", "- 0", "-1->-0"), (r"\+ 1\b", "+ 0", "+1->+0"), (r"\+= 1\b", "+= 2", "+=1->2"), (r"-= 1\b", "-= 0", "-=1->0"),
    (r"\bleft\(", "right(", "left->right"), (r"\bright\(", "left(", "right->left"),
    (r"\bheapify_min\(", "heapify_max(", "hmin->hmax"), (r"\bheapify_max\(", "heapify_min(", "hmax->hmin"),
    (r"\bbubble_up_min\(", "bubble_up_max(", "bmin->bmax"), (r"\bbubble_up_max\(", "bubble_up_min(", "bmax->bmin"),
    (r"\bfind_min\(", "find_max(", "fmin->fmax"), (r"\bfind_max\(", "find_min(", "fmax->fmin"),
    (r"\bmin_by_key\(", "max_by_key(", "minby->maxby"), (r"\bmax_by_key\(", "min_by_key(", "maxby->minby"),
    (r"\bpop_min\(", "pop_max(", "popmin->popmax"), (r"\bpop_max\(", "pop_min(", "popmax->popmin"),
    (r"\btrue\b", "false", "true->false"), (r"\bfalse\b", "true", "false->true"),
    (r"% 2 == 0", "% 2 == 1", "parity"), (r"Position\(0\)", "Position(1)", "pos0->1"), (r"Position\(1\)", "Position(2)", "pos1->2"), (r"Position\(2\)", "Position(1)", "pos2->1"),
    (r"\.is_none\(\)", ".is_some()", "none->some"), (r"\.is_some\(\)", ".is_none()", "some->none"),
    (r"\.is_empty\(\)", ".len() == 1", "empty->one"),
    (r"&&", "||", "and->or"), (r"\|\|(?!\s*\{)", "&&", "or->and"),
    (r"\bnext_back\(\)", "next()", "nextback->next"), (r"\.swap_remove\(", ".remove(", "swaprm->rm"),
    (r"\bpos_back\b", "pos", "posback->pos"),
    (r"self\.pos\b", "self.pos_back", "pos->posback"),
]


def code_lines(text):
    """indices of lines that are code (not comments / doc / attributes / tests)"""
    out = []
    in_tests = False
    for i, l in enumerate(text):
        s = l.strip()
        if s.startswith("mod tests") or s.startswith("#[cfg(test)]"):
            in_tests = True
        if in_tests:
            continue
        if not s or s.startswith("//") or s.startswith("#[") or s.startswith("#!["):
            continue
        if s.startswith(("use ", "pub use ", "extern ", "impl<", "impl ", "where", "pub struct", "struct ", "type ", "pub type", "fn ", "pub fn", "pub(crate) fn", "unsafe fn", "pub unsafe fn", "const fn", "pub const fn")):
            continue
        if re.match(r"^[A-Z][A-Za-z0-9]*: ", s) or s.endswith(">,") or "->" in s and "fn" in s:
            continue
        out.append(i)
    return out


def gen(outdir):
    os.makedirs(outdir, exist_ok=True)
    n = 0
    for rel in FILES:
        path = os.path.join(SRC, rel)
        text = open(path).read().split("\n")
        cl = code_lines(text)
        for i in cl:
            line = text[i]
            code = line.split("//")[0]
            # statement deletion: a line that is a whole call statement
            cands = []
            s = code.strip()
            if os.environ.get("AUTOMUT_OPS") != "2" and re.match(r"^(self\.[a-z_\.]+\(.*\);|[a-z_]+\.[a-z_]+\(.*\);|\*?self\.[a-z_\.]+ [\+\-]?= .*;|store\.[a-z_\.]+ [\+\-]?= .*;)$", s):
                cands.append((line.replace(s, "/* deleted */"), "delete-stmt"))
            for pat, rep, name in (OPS2 if os.environ.get("AUTOMUT_OPS") == "2" else OPS):
                for m in re.finditer(pat, code):
                    new = line[:m.start()] + rep + line[m.end():]
                    if new != line:
                        cands.append((new, name))
            for new, name in cands:
                t2 = list(text)
                t2[i] = new
                d = "".join(difflib.unified_diff([x + "\n" for x in text], [x + "\n" for x in t2], "a/src/" + rel, "b/src/" + rel, n=2))
                n += 1
                open(os.path.join(outdir, "%04d.diff" % n), "w").write("diff --git a/src/%s b/src/%s\n" % (rel, rel) + d)
                open(os.path.join(outdir, "%04d.txt" % n), "w").write("%s:%d %s\n- %s\n+ %s\n" % (rel, i + 1, name, line.strip(), new.strip()))
    print("mutants:", n)


ALL = ["C%02d" % i for i in range(1, 19)]


def run_one(args):
    outdir, name, slot = args
    patch = os.path.join(outdir, name + ".diff")
    S = tempfile.mkdtemp(prefix="automut.", dir="/tmp")
    tgt = "/tmp/automut-target-%d" % slot
    try:
        for x in ("src", "tests", "Cargo.toml", "Cargo.lock", "test-nostd", "benches", "examples"):
            p = os.path.join("/repo", x)
            if os.path.isdir(p):
                shutil.copytree(p, os.path.join(S, x))
            elif os.path.exists(p):
                shutil.copy(p, S)
        r = subprocess.run(["git", "apply", patch], cwd=S, capture_output=True, text=True)
        if r.returncode != 0:
            subprocess.run(["git", "init", "-q", "."], cwd=S)
            r = subprocess.run(["patch", "-s", "-p1", "-i", patch], cwd=S, capture_output=True, text=True)
            if r.returncode != 0:
                return name, "patch-failed", ""
        env = dict(os.environ, CARGO_TARGET_DIR=tgt, CARGO_NET_OFFLINE="true")
        try:
            r = subprocess.run(["cargo", "test", "--offline", "--no-fail-fast", "--tests", "-q"], cwd=S, capture_output=True, text=True, env=env, timeout=240)
        except subprocess.TimeoutExpired:
            return name, "killed-by-tests(timeout)", ""
        if r.returncode != 0:
            kind = "does-not-compile" if "error[" in r.stderr or "error:" in r.stderr and "test failed" not in r.stderr else "killed-by-tests"
            return name, kind, ""
        caught = []
        errs = []
        for pid in ALL:
            r = subprocess.run(["/verif/check", pid, "--src", S, "--no-evidence"], capture_output=True, text=True)
            if r.returncode == 1:
                rules = sorted(set(re.findall(r"rule=([A-Z0-9-]+)", r.stdout)))
                caught.append("%s:%s" % (pid, "+".join(rules)))
            elif r.returncode != 0:
                errs.append("%s:%s" % (pid, (r.stdout.strip().split("\n")[-1])[:80]))
        if caught:
            return name, "CAUGHT", " ".join(caught)
        if errs:
            return name, "CHECK-ERROR", " ".join(errs)
        return name, "SILENT", ""
    finally:
        shutil.rmtree(S, ignore_errors=True)


def run(outdir, jobs):
    names = sorted(f[:-5] for f in os.listdir(outdir) if f.endswith(".diff"))
    done = {}
    res = os.path.join(outdir, "results.tsv")
    if os.path.exists(res):
        for l in open(res):
            p = l.rstrip("\n").split("\t")
            done[p[0]] = p
    todo = [n for n in names if n not in done]
    print("to run:", len(todo))
    with ThreadPoolExecutor(max_workers=jobs) as ex, open(res, "a") as fh:
        slots = list(range(jobs))
        import threading
        lock = threading.Lock()

        def work(n):
            with lock:
                slot = slots.pop()
            try:
                return run_one((outdir, n, slot))
            finally:
                with lock:
                    slots.append(slot)
        for name, verdict, detail in ex.map(work, todo):
            desc = open(os.path.join(outdir, name + ".txt")).read().split("\n")[0]
            fh.write("%s\t%s\t%s\t%s\n" % (name, verdict, desc, detail))
            fh.flush()
    for s in range(jobs):
        shutil.rmtree("/tmp/automut-target-%d" % s, ignore_errors=True)


if __name__ == "__main__":
    if sys.argv[1] == "gen":
        gen(sys.argv[2])
    else:
        run(sys.argv[2], int(sys.argv[3]) if len(sys.argv) > 3 else 6)
