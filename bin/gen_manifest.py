#!/usr/bin/env python3
"""Regenerate MANIFEST.json from pqa/props.py (explanations) and the tables below."""
import json, os, subprocess, sys
HERE = os.path.dirname(os.path.dirname(os.path.abspath(__file__)))
sys.path.insert(0, HERE)
from pqa import props
fix_commits = subprocess.run("git -C /repo log --format=%h --reverse 716b03f..HEAD", shell=True, capture_output=True, text=True).stdout.split()
notes = {
 "C01": "NOT decided: that the sift algorithms compute the right permutation for every priority assignment; R-SIFT only fixes their decision skeleton (comparisons, operand roles, which edge swaps/continues) to the reviewed one. Decides the necessary clause 'every dirtying operation re-sifts the right position before returning' on all feasible paths.",
 "C02": "NOT decided: full functional correctness of the min-max trickle-down/bubble-up for every heap shape; R-DUAL/R-SIFT fix the comparison facts, candidate sets and continuation structure only.",
 "C03": "NOT decided: equality of each return value with a reference map (needs values). Decides the structural clause: len (size) and the map always describe the same set; absent-item paths are effect-free; removal primitives re-link moved entries on every path.",
 "C04": "Justifications are relative to the representation invariant I (heap/qp inverse permutations of 0..size = map.len()); its preservation is covered by the necessary conditions R-GROW/R-REPAIR/R-UNITS/R-WRITERS, not proved inductively. The contract table of R-BOUNDS (preconditions of the internal position-taking functions) is part of the trusted reading of the code, verified from both sides.",
 "C05": "Constants of the bounds are asserted from loop shape (tree-path loops, Floyd construction), not derived; hashing cost is not considered; only priority comparisons (Ord/PartialOrd on P) are counted.",
 "C06": "Monotonicity of the yielded priorities is C01/C02's undecided core; decides which end is consumed, by which primitive, the reported length, and (as necessary conditions) the heap-order rules of C01/C02.",
 "C07": "NOT decided: that the resulting contents equal the specification for every input sequence; decides hint-independence (taint), the first/last/receiver-wins table, rebuild after every bulk path, table growth.",
 "C08": "NOT decided: value-level outcomes; indexmap's retain2 visiting each element exactly once is trusted. KNOWN FINDING D9 (genuine, not repaired, listed in known_findings.json): the &mut items of iter_mut() outlive the iterator whose destructor rebuilds the heap - writes through collected references happen after the rebuild (R-LENDING); the check prints KNOWN-FINDING and exits 0.",
 "C09": "The cursor discipline is sufficient for uniqueness given get_index_mut2's contract, so the aliasing clause itself is decided for all call sequences.",
 "C10": "Trusted: indexmap/std stay memory safe when a user callback unwinds. Panics in user Drop impls are outside the property's list of user code. indexmap is NOT trusted to keep its map usable when a callback unwinds inside a structural write (retain2, clone_from, sort_by, dedup_by, extend, extract_if are W;U events: user code inside them is a violation - D8).",
 "C11": "Relies on the C01/C02/C03 rules for push itself.",
 "C12": "Nothing structural remains undecided; interior mutability in user types is outside the property.",
 "C13": "'each element exactly once' for the delegating wrappers is indexmap's contract (trusted); decides wiring, size_hint/len agreement, fusedness, no unverifiable overrides.",
 "C14": "indexmap's PartialEq being set equality is trusted; a hand-written equality other than delegation to it is reported as undecidable-here (violation of the rule's form).",
 "C15": "NOT decided: value equality of a round trip and behaviour of third-party formats; decides shape agreement, growth only for new keys, rebuild after deserialization.",
 "C16": "'behaves like a fresh queue' reduces to the four components being reset plus C17's capacity-invisibility.",
 "C17": "NOT decided: the numeric guarantee capacity >= len + additional (std/indexmap contract) and allocator failure behaviour.",
 "C18": "Tie-breaking among equal priorities is slot-order dependent, not hash dependent; indexmap's hasher-independence as an insertion-ordered map is trusted.",
}
tech = {
 "C01": "MIR typestate (must-pass-through with flag-correlation pruning) + value provenance + reviewed decision skeletons", "C02": "MIR typestate + value provenance + sibling duality of decision skeletons",
 "C03": "typestate automaton (table consistency) over all feasible MIR paths", "C04": "modular obligation discharge (contracts, dominating guards, provenance) + units discipline",
 "C05": "call-graph reachability of comparison sites x natural-loop shape", "C06": "forwarding/wiring analysis + must-pass", "C07": "taint analysis + sibling agreement + must-pass",
 "C08": "must-pass + exactly-once call-site analysis", "C09": "cursor typestate on raw-pointer lifetime extensions", "C10": "effect inference by parametricity + typestate automaton at unwind-capable sites",
 "C11": "comparison normalisation + branch effect analysis", "C12": "who-may-call over the typed API + call-graph reachability", "C13": "impl inventory + forwarding analysis",
 "C14": "footprint analysis + derive inventory", "C15": "writer/reader shape agreement + typestate", "C16": "must-pass + dominance", "C17": "forwarding + effect emptiness + flow of capacity()", "C18": "call-site resolution inventory (parametricity)",
}
checks = []
for pid in sorted(props.PROPS):
    checks.append({
      "property_id": pid,
      "quick_cmd": "./check %s --tier quick" % pid,
      "thorough_cmd": "./check %s --tier thorough" % pid,
      "evidence_file": "/verif/evidence/%s.json" % pid,
      "replay_cmd_template": "./check %s --explain {path}" % pid,
      "engine": "pqfacts+pqa",
      "level_claimed": {"category": "other", "text": "Static analysis over the type-checked program (rustc MIR of /repo's working tree; quantifies over all paths of the code instead of sampled inputs): " + props.PROPS[pid]["explanation"], "design_ref": "DESIGN.md 3, 4 (%s)" % pid},
      "level_note": notes[pid],
      "technique": "static analysis: " + tech[pid],
    })
m = {
 "version": 1,
 "setup_cmd": "cd pqfacts && CARGO_NET_OFFLINE=true cargo +nightly build --release --offline",
 "hooks": {"guard": "none (static analysis needs no instrumentation; no hook commits exist)",
           "enable": "n/a - checks read /repo's working tree through the pqfacts rustc driver under `cargo +nightly check --offline`",
           "baseline_off_cmd": "cd /repo && cargo test --workspace --no-fail-fast --offline",
           "source_commits": fix_commits, "add_only": True},
 "engines": [{"name": "pqfacts+pqa", "path": "/verif/pqfacts, /verif/pqa, /verif/check", "serves_properties": sorted(props.PROPS),
              "kind_free_text": "custom rustc_private driver serialising the type-checked crate (MIR, resolved callees, instantiated predicates) + Python rule engine (CFG, value provenance, effect inference, typestate exploration)"}],
 "checks": checks,
 "notes": "source_commits are unguarded `fix:` commits repairing genuine defects D1-D8 (see known_findings.json, DESIGN.md 5); one genuine defect (D9, iter_mut items outlive the iterator) is recorded as a known finding under C01, C02, C04, C08 and not repaired; there are no hook commits. quick = std + serde + no_std configurations (C15: serde only; the property's anchors exist only there); thorough = the same three configurations plus compile-fail witnesses and checker self-test (seeded changes and benign patches applied to scratch copies, evidence only). Exit 2 + CHECK-ERROR = no verdict (tree does not build / anchor lost).",
 "not_applicable": [],
}
json.dump(m, open(os.path.join(HERE, "MANIFEST.json"), "w"), indent=1)
print("checks:", len(checks))
