#!/bin/bash
# usage: benign_focus.sh "C04 C07 .." [parallelism]  -- run only the named checks against every benign patch (curated + independent)
CHK="${1:-C04 C07 C08 C10 C15}"
PAR="${2:-12}"
export CHK
run1() {
  p=$1
  out=$(/verif/bin/mutrun.sh $p $CHK 2>&1)
  if echo "$out" | grep -qE '^VIOLATION|CHECK-ERROR|PATCH-FAILED|Traceback'; then
    echo "$(basename $p) ALARM"
    echo "$out" | grep -E 'rule=|CHECK-ERROR|PATCH-FAILED|Error' | cut -c1-230 | sort -u | head -6
  else
    echo "$(basename $p) silent"
  fi
}
export -f run1
ls /verif/selftest/benign2/*.patch /verif/selftest/benign/*.patch | xargs -P "$PAR" -I{} bash -c 'run1 {}'
