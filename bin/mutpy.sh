#!/bin/bash
# usage: mutpy.sh <patch.diff> <python script> [args]  -- run a python test script against a scratch copy with the patch applied
P="$1"; shift; SCRIPT="$1"; shift
S=$(mktemp -d /tmp/pqmut.XXXXXX)
trap 'rm -rf "$S"' EXIT
cp -r /repo/src /repo/Cargo.toml /repo/Cargo.lock /repo/test-nostd "$S"/ 2>/dev/null
( cd "$S" && git init -q . >/dev/null 2>&1; git apply "$P" 2>/dev/null || patch -s -p1 --fuzz=3 < "$P" ) || { echo "PATCH-FAILED $P"; exit 3; }
python3 "$SCRIPT" "$S" "$@" 2>&1 | sed "s|$S/||g"
