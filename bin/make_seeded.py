#!/usr/bin/env python3
"""seeded_raw/<PID>/m<k> (+ verification log + sweep log) -> seeded/<PID>-m<k>/{patch.diff,demo.rs,README.md,meta.json}"""
import json, os, re, shutil, sys, glob
HERE = os.path.dirname(os.path.dirname(os.path.abspath(__file__)))
ver = {}
for log in sys.argv[1:2]:
    for l in open(log):
        m = re.match(r"(C\d+-m\d+) (\S+) (\S+)\s*(.*)", l)
        if m and m.group(3) == "CONFIRMED":
            ver[m.group(1)] = (m.group(2), m.group(4))
sweep = {}
for log in sys.argv[2:3]:
    for l in open(log):
        p = l.split()
        if len(p) >= 2:
            sweep[p[0].replace("/", "-")] = (p[1], [x.replace("rule=", "") for x in p[2:]])
n = 0
RAW = os.environ.get("RAW", "seeded_raw")
SUF = os.environ.get("SUFFIX", "")
for d in sorted(glob.glob(os.path.join(HERE, RAW, "*", "m*"))):
    pid = os.path.basename(os.path.dirname(d)); name = "%s-%s%s" % (pid, SUF, os.path.basename(d))
    vname = "%s-%s" % (pid, os.path.basename(d))
    if vname not in ver:
        print("skip (not confirmed):", name); continue
    out = os.path.join(HERE, "seeded", name)
    os.makedirs(out, exist_ok=True)
    for f in ("patch.diff", "demo.rs", "README.md"):
        shutil.copy(os.path.join(d, f), os.path.join(out, f))
    readme = open(os.path.join(d, "README.md")).read()
    needs = ""
    m = re.search(r"(?is)(what is needed|needs?|to manifest|circumstances)[^\n]*\n(.*?)(\n#|\n\*\*|\ncommands|\Z)", readme)
    needs = (m.group(2).strip()[:900] if m else readme.strip()[:900])
    meta = {
        "id": name, "property": pid, "origin": "independent sub-agent given only the property text and a scratch worktree",
        "patch_applies_to": "/repo HEAD (after the fix: commits)" ,
        "needs_to_manifest": needs,
        "confirmed_by": {"script": "bin/verify_mutant.sh (scratch worktree of /repo; removed afterwards)",
                         "steps": ["git apply patch.diff", "cargo test --offline --no-fail-fast --workspace  -> all pass",
                                   "cp demo.rs tests/demo.rs && cargo test --offline --test demo  -> FAILS with the patch",
                                   "git checkout -- src && cargo test --offline --test demo  -> passes without the patch"],
                         "applied": ver[vname][0], "failing_demo_tests": ver[vname][1][:300]},
        "detected": sweep.get(vname, ("not-run", []))[0] == "CAUGHT",
        "detected_by_rules": sweep.get(vname, ("", []))[1],
        "round": int(os.environ.get("ROUND", "2" if SUF else "1")),
        "check_run": "bin/mutrun.sh seeded/%s/patch.diff %s" % (name, pid),
    }
    json.dump(meta, open(os.path.join(out, "meta.json"), "w"), indent=1)
    n += 1
print("seeded entries:", n)
