#!/usr/bin/env python3
"""Port patches written before the D10 repair (f6a1527): wherever a hunk's context / removed lines contain the two old lines of
StoreVisitor::visit_seq that the repair changed, substitute the repaired lines (and fix the hunk header counts).
usage: port_d10.py <patch> ..   (the original is kept next to it as patch.pre-D10.diff / <name>.pre-D10.orig)"""
import os
import re
import shutil
import sys

NEWLINES = ["            // The size hint comes from the input (a length prefix, for instance): use it",
            "            // to pre-allocate, but never trust it beyond a small bound.",
            "            let mut store: Store<I, P, H> = if let Some(size) = seq.size_hint() {",
            "                Store::with_capacity_and_default_hasher(size.min(4096))"]
OLD1 = "            let mut store: Store<I, P, H> = if let Some(size) = seq.size_hint() {"
OLD2 = "                Store::with_capacity_and_default_hasher(size)"


def port(path):
    lines = open(path).read().split('\n')
    out = []
    i = 0
    changed = False
    cur = None
    d = [0, 0]

    def flush():
        nonlocal cur
        if cur is not None and (d[0] or d[1]):
            m = re.match(r'@@ -(\d+)(?:,(\d+))? \+(\d+)(?:,(\d+))? @@(.*)', out[cur])
            a, b, c, e, rest = m.groups()
            b = int(b or 1)
            e = int(e or 1)
            out[cur] = '@@ -%s,%d +%s,%d @@%s' % (a, b + d[0], c, e + d[1], rest)
        d[0] = d[1] = 0

    while i < len(lines):
        l = lines[i]
        if l.startswith('@@'):
            flush()
            cur = len(out)
            out.append(l)
            i += 1
            continue
        if l.startswith('diff --git') or l.startswith('--- ') or l.startswith('+++ '):
            flush()
            cur = None
            out.append(l)
            i += 1
            continue
        if cur is not None and l[:1] in (' ', '-') and l[1:] == OLD1 and i + 1 < len(lines) and lines[i + 1][:1] == l[:1] and lines[i + 1][1:] == OLD2:
            pre = l[:1]
            for nl in NEWLINES:
                out.append(pre + nl)
            if pre == ' ':
                d[0] += 2
                d[1] += 2
            else:
                d[0] += 2
            changed = True
            i += 2
            continue
        out.append(l)
        i += 1
    flush()
    if changed:
        bak = path.replace('patch.diff', 'patch.pre-D10.diff') if path.endswith('patch.diff') else path + '.pre-D10.orig'
        if not os.path.exists(bak):
            shutil.copy(path, bak)
        open(path, 'w').write('\n'.join(out))
    return changed


if __name__ == "__main__":
    for p in sys.argv[1:]:
        print(p, port(p))
