#!/bin/bash
# usage: mutrun.sh <patch.diff> <PID> [more PIDs...]  -- run checks against a scratch copy of /repo with the patch applied
P="$(readlink -f "$1")"; shift
S=$(mktemp -d /tmp/pqmut.XXXXXX)
trap 'rm -rf "$S"' EXIT
cp -r /repo/src /repo/Cargo.toml /repo/Cargo.lock /repo/test-nostd "$S"/ 2>/dev/null
[ -f /repo/build.rs ] && cp /repo/build.rs "$S"/
( cd "$S" && git init -q . >/dev/null 2>&1; git apply "$P" 2>/dev/null || patch -s -p1 --fuzz=3 < "$P" ) || { echo "PATCH-FAILED $P"; exit 3; }
rc=0
for pid in "$@"; do
  /verif/check "$pid" --src "$S" --no-evidence ${TIER:+--tier $TIER} | sed "s|$S/||g" || rc=1
done
exit $rc
