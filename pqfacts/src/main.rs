//! pqfacts — fact extractor for the static analysis of garro95/priority-queue.
//!
//! A rustc driver (RUSTC_WORKSPACE_WRAPPER) that serialises, for the crates named in
//! $PQFACTS_CRATES, the type-checked program: ADTs, impls, functions and their MIR
//! (optimized_mir at -Zmir-opt-level=0) with resolved callees and the instantiated
//! trait predicates of every call.  It contains NO rule logic.
#![feature(rustc_private)]
extern crate rustc_abi;
extern crate rustc_driver;
extern crate rustc_hir;
extern crate rustc_interface;
extern crate rustc_middle;
extern crate rustc_session;
extern crate rustc_span;

mod json;
use json::J;

use rustc_driver::{Callbacks, Compilation};
use rustc_hir::def::DefKind;
use rustc_hir::def_id::{DefId, LocalDefId, LOCAL_CRATE};
use rustc_interface::interface;
use rustc_middle::mir::{
    self, AggregateKind, BasicBlock, Body, Operand, Place, ProjectionElem, Rvalue, StatementKind,
    TerminatorKind, UnwindAction,
};
use rustc_middle::ty::{self, GenericArgKind, GenericArgsRef, Ty, TyCtxt, TypingEnv};
use rustc_span::Span;

struct Cb;

impl Callbacks for Cb {
    fn after_analysis<'tcx>(&mut self, _c: &interface::Compiler, tcx: TyCtxt<'tcx>) -> Compilation {
        let name = tcx.crate_name(LOCAL_CRATE).to_string();
        let wanted = std::env::var("PQFACTS_CRATES").unwrap_or_else(|_| "priority_queue".into());
        if !wanted.split(',').any(|w| w == name) {
            return Compilation::Continue;
        }
        let out_dir = match std::env::var("PQFACTS_OUT") {
            Ok(d) => d,
            Err(_) => return Compilation::Continue,
        };
        let doc = Extract { tcx, cur_owner: std::cell::Cell::new(rustc_hir::def_id::CRATE_DEF_ID.to_def_id()) }.krate(&name);
        let mut s = String::with_capacity(1 << 22);
        doc.write(&mut s);
        s.push('\n');
        let path = format!("{}/{}.json", out_dir, name);
        // one write per process
        std::fs::write(&path, s).expect("pqfacts: cannot write fact file");
        Compilation::Continue
    }
}

struct Extract<'tcx> {
    tcx: TyCtxt<'tcx>,
    cur_owner: std::cell::Cell<DefId>,
}

fn last_seg(s: &str) -> &str {
    s.rsplit("::").next().unwrap_or(s)
}

impl<'tcx> Extract<'tcx> {
    // ---------------------------------------------------------------- spans
    fn span(&self, sp: Span) -> J {
        let sm = self.tcx.sess.source_map();
        let lo = sm.lookup_char_pos(sp.lo());
        let hi = sm.lookup_char_pos(sp.hi());
        let file = format!("{}", lo.file.name.prefer_local_unconditionally());
        J::Obj(vec![
            ("file", J::s(file)),
            ("line", J::n(lo.line)),
            ("col", J::n(lo.col.0 + 1)),
            ("eline", J::n(hi.line)),
            ("exp", J::Bool(sp.from_expansion())),
        ])
    }

    // ---------------------------------------------------------------- names / keys
    fn adt_path(&self, did: DefId) -> String {
        // path without generic arguments
        self.tcx.def_path_str(did)
    }

    /// short "head" of a type, used to disambiguate trait impls (From<Vec> vs From<DoublePriorityQueue>)
    fn ty_head(&self, t: Ty<'tcx>) -> String {
        match t.kind() {
            ty::Adt(d, _) => {
                let k = self.tcx.crate_name(d.did().krate).to_string();
                let n = last_seg(&self.adt_path(d.did())).to_string();
                if d.did().is_local() || k == "std" || k == "alloc" || k == "core" {
                    n
                } else {
                    format!("{}::{}", k, n)
                }
            }
            ty::Ref(_, inner, m) => format!("&{}{}", if m.is_mut() { "mut " } else { "" }, self.ty_head(*inner)),
            ty::Param(p) => p.name.to_string(),
            ty::Tuple(_) => "(..)".into(),
            ty::Slice(_) => "[..]".into(),
            _ => format!("{}", t),
        }
    }

    /// self description for keys: `&mut priority_queue::PriorityQueue`, `store::Store`
    fn self_desc(&self, t: Ty<'tcx>) -> String {
        match t.kind() {
            ty::Adt(d, _) => self.adt_path(d.did()),
            ty::Ref(_, inner, m) => format!("&{}{}", if m.is_mut() { "mut " } else { "" }, self.self_desc(*inner)),
            ty::Param(p) => p.name.to_string(),
            _ => format!("{}", t),
        }
    }

    fn trait_desc(&self, tr: ty::TraitRef<'tcx>) -> String {
        let name = last_seg(&self.tcx.def_path_str(tr.def_id)).to_string();
        let extra: Vec<String> = tr
            .args
            .iter()
            .skip(1)
            .filter_map(|a| match a.kind() {
                GenericArgKind::Type(t) => Some(self.ty_head(t)),
                _ => None,
            })
            .collect();
        if extra.is_empty() {
            name
        } else {
            format!("{}<{}>", name, extra.join(","))
        }
    }

    /// Stable, generics-free key of a function-like item (works for local and external items).
    fn fn_key(&self, did: DefId) -> String {
        let tcx = self.tcx;
        match tcx.def_kind(did) {
            DefKind::Closure | DefKind::SyntheticCoroutineBody => {
                let parent = tcx.parent(did);
                let idx = tcx.def_path(did).data.last().map(|d| d.disambiguator).unwrap_or(0);
                format!("{}::{{closure#{}}}", self.fn_key(parent), idx)
            }
            DefKind::AssocFn | DefKind::AssocConst { .. } | DefKind::AssocTy => {
                let parent = tcx.parent(did);
                let name = tcx.item_name(did).to_string();
                match tcx.def_kind(parent) {
                    DefKind::Impl { of_trait } => {
                        let self_ty = tcx.type_of(parent).instantiate_identity().skip_norm_wip();
                        if of_trait {
                            let tr = tcx.impl_trait_ref(parent).instantiate_identity().skip_norm_wip();
                            format!("<{} as {}>::{}", self.self_desc(self_ty), self.trait_desc(tr), name)
                        } else {
                            format!("{}::{}", self.self_desc(self_ty), name)
                        }
                    }
                    _ => format!("{}::{}", tcx.def_path_str(parent), name),
                }
            }
            _ => tcx.def_path_str(did),
        }
    }

    // ---------------------------------------------------------------- types
    fn ty(&self, t: Ty<'tcx>) -> J {
        let s = format!("{}", t);
        let mut o: Vec<(&'static str, J)> = vec![("s", J::s(s))];
        match t.kind() {
            ty::Adt(d, args) => {
                o.push(("k", J::s("adt")));
                o.push(("path", J::s(self.adt_path(d.did()))));
                o.push(("krate", J::s(self.tcx.crate_name(d.did().krate).to_string())));
                o.push(("args", self.gargs(args)));
            }
            ty::Ref(_, inner, m) => {
                o.push(("k", J::s("ref")));
                o.push(("mut", J::Bool(m.is_mut())));
                o.push(("inner", self.ty(*inner)));
            }
            ty::RawPtr(inner, m) => {
                o.push(("k", J::s("ptr")));
                o.push(("mut", J::Bool(m.is_mut())));
                o.push(("inner", self.ty(*inner)));
            }
            ty::Param(p) => {
                o.push(("k", J::s("param")));
                o.push(("name", J::s(p.name.to_string())));
            }
            ty::Tuple(ts) => {
                o.push(("k", J::s("tuple")));
                o.push(("elems", J::Arr(ts.iter().map(|t| self.ty(t)).collect())));
            }
            ty::Slice(inner) => {
                o.push(("k", J::s("slice")));
                o.push(("inner", self.ty(*inner)));
            }
            ty::Array(inner, len) => {
                o.push(("k", J::s("array")));
                o.push(("inner", self.ty(*inner)));
                o.push(("len", J::s(format!("{}", len))));
            }
            ty::Closure(did, args) => {
                o.push(("k", J::s("closure")));
                o.push(("def", J::s(self.fn_key(*did))));
                // parent generic args only (closure-specific synthetic ones are noise)
                let _ = args;
            }
            ty::FnDef(did, args) => {
                o.push(("k", J::s("fndef")));
                o.push(("def", J::s(self.fn_key(*did))));
                o.push(("args", self.gargs(args)));
            }
            ty::FnPtr(..) => o.push(("k", J::s("fnptr"))),
            ty::Alias(..) => o.push(("k", J::s("alias"))),
            ty::Bool | ty::Char | ty::Int(_) | ty::Uint(_) | ty::Float(_) | ty::Str | ty::Never => {
                o.push(("k", J::s("prim")))
            }
            ty::Dynamic(..) => o.push(("k", J::s("dyn"))),
            _ => o.push(("k", J::s("other"))),
        }
        J::Obj(o)
    }

    fn gargs(&self, args: GenericArgsRef<'tcx>) -> J {
        J::Arr(
            args.iter()
                .filter_map(|a| match a.kind() {
                    GenericArgKind::Type(t) => Some(self.ty(t)),
                    GenericArgKind::Const(c) => Some(J::Obj(vec![("s", J::s(format!("{}", c))), ("k", J::s("const"))])),
                    GenericArgKind::Lifetime(_) => None,
                })
                .collect(),
        )
    }

    /// names of type parameters mentioned anywhere in `t`
    fn params_in(&self, t: Ty<'tcx>, out: &mut Vec<String>) {
        let mut w = t.walk();
        while let Some(a) = w.next() {
            if let GenericArgKind::Type(t) = a.kind() {
                match t.kind() {
                    ty::Param(p) => {
                        let n = p.name.to_string();
                        if !out.contains(&n) {
                            out.push(n);
                        }
                    }
                    ty::Closure(did, _) => {
                        // the closure's own generic arguments are those of its parent: noise here
                        let n = format!("closure:{}", self.fn_key(*did));
                        if !out.contains(&n) {
                            out.push(n);
                        }
                        w.skip_current_subtree();
                    }
                    _ => {}
                }
            }
        }
    }

    // ---------------------------------------------------------------- predicates
    fn clause(&self, c: ty::Clause<'tcx>) -> Option<J> {
        if let Some(tc) = c.as_trait_clause() {
            let tp = tc.skip_binder();
            let tr = tp.trait_ref;
            let self_ty = tr.self_ty();
            let mut params = vec![];
            for a in tr.args.iter() {
                if let GenericArgKind::Type(t) = a.kind() {
                    self.params_in(t, &mut params);
                }
            }
            let mut self_params = vec![];
            self.params_in(self_ty, &mut self_params);
            return Some(J::Obj(vec![
                ("kind", J::s("trait")),
                ("trait", J::s(self.tcx.def_path_str(tr.def_id))),
                ("self", self.ty(self_ty)),
                ("args", self.gargs(tr.args)),
                ("self_params", J::Arr(self_params.into_iter().map(J::s).collect())),
                ("params", J::Arr(params.into_iter().map(J::s).collect())),
                ("s", J::s(format!("{}", c))),
            ]));
        }
        if let Some(pc) = c.as_projection_clause() {
            return Some(J::Obj(vec![("kind", J::s("projection")), ("s", J::s(format!("{}", pc)))]));
        }
        None
    }

    fn own_predicates(&self, did: DefId) -> J {
        let preds = self.tcx.predicates_of(did);
        let inst = preds.instantiate_identity(self.tcx);
        J::Arr(inst.predicates.iter().filter_map(|c| self.clause(c.skip_norm_wip())).collect())
    }

    fn call_predicates(&self, did: DefId, args: GenericArgsRef<'tcx>) -> J {
        let preds = self.tcx.predicates_of(did);
        let inst = preds.instantiate(self.tcx, args);
        J::Arr(inst.predicates.iter().filter_map(|c| self.clause(c.skip_norm_wip())).collect())
    }

    // ---------------------------------------------------------------- MIR pieces
    fn place(&self, body: &Body<'tcx>, p: &Place<'tcx>) -> J {
        let tcx = self.tcx;
        let mut projs = vec![];
        let mut pty = mir::PlaceTy::from_ty(body.local_decls[p.local].ty);
        for elem in p.projection.iter() {
            let j = match elem {
                ProjectionElem::Deref => J::Obj(vec![("k", J::s("deref"))]),
                ProjectionElem::Field(f, fty) => {
                    let mut o = vec![("k", J::s("field")), ("i", J::n(f.as_usize()))];
                    // field name when the base is an ADT
                    if let ty::Adt(def, _) = pty.ty.kind() {
                        let vidx = pty.variant_index.unwrap_or(rustc_abi::FIRST_VARIANT);
                        if def.is_struct() || def.is_enum() || def.is_union() {
                            if let Some(v) = def.variants().get(vidx) {
                                if let Some(fd) = v.fields.get(f) {
                                    o.push(("name", J::s(fd.name.to_string())));
                                }
                            }
                            o.push(("of", J::s(self.adt_path(def.did()))));
                        }
                    }
                    o.push(("ty", J::s(format!("{}", fty))));
                    J::Obj(o)
                }
                ProjectionElem::Index(l) => J::Obj(vec![("k", J::s("index")), ("local", J::n(l.as_usize()))]),
                ProjectionElem::ConstantIndex { offset, min_length, from_end } => J::Obj(vec![
                    ("k", J::s("constidx")),
                    ("offset", J::n(offset)),
                    ("min_length", J::n(min_length)),
                    ("from_end", J::Bool(from_end)),
                ]),
                ProjectionElem::Subslice { .. } => J::Obj(vec![("k", J::s("subslice"))]),
                ProjectionElem::Downcast(name, v) => J::Obj(vec![
                    ("k", J::s("downcast")),
                    ("variant", J::n(v.as_usize())),
                    ("name", J::s(name.map(|n| n.to_string()).unwrap_or_default())),
                ]),
                ProjectionElem::OpaqueCast(_) => J::Obj(vec![("k", J::s("opaquecast"))]),
                ProjectionElem::UnwrapUnsafeBinder(_) => J::Obj(vec![("k", J::s("unwrapbinder"))]),
            };
            projs.push(j);
            pty = pty.projection_ty(tcx, elem);
        }
        J::Obj(vec![
            ("local", J::n(p.local.as_usize())),
            ("proj", J::Arr(projs)),
            ("ty", J::s(format!("{}", pty.ty))),
        ])
    }

    fn operand(&self, body: &Body<'tcx>, op: &Operand<'tcx>) -> J {
        match op {
            Operand::Copy(p) => J::Obj(vec![("k", J::s("copy")), ("place", self.place(body, p))]),
            Operand::Move(p) => J::Obj(vec![("k", J::s("move")), ("place", self.place(body, p))]),
            Operand::Constant(c) => {
                let t = c.const_.ty();
                let mut o = vec![("k", J::s("const")), ("ty", J::s(format!("{}", t))), ("s", J::s(format!("{}", c.const_)))];
                if let ty::FnDef(did, args) = t.kind() {
                    o.push(("fn", self.callee(*did, args)));
                }
                // a named constant (`usize::BITS`, a local `const TOP_BIT: u32 = ..`) of integer type whose value does not
                // depend on a generic parameter: also give the value it evaluates to
                if let rustc_middle::mir::Const::Unevaluated(..) = c.const_ {
                    // a named constant of a crate-local newtype over an integer (`Position::ROOT`): the constructor applied to
                    // the value
                    if let ty::Adt(adt, aargs) = t.kind() {
                        if adt.did().is_local() && adt.is_struct() && adt.non_enum_variant().fields.len() == 1 {
                            let fld = adt.non_enum_variant().fields.iter().next().unwrap();
                            let fty = fld.ty(self.tcx, aargs);
                            if fty.is_integral() {
                                let env = TypingEnv::post_analysis(self.tcx, self.cur_owner.get());
                                if let Some(si) = c.const_.try_eval_scalar_int(self.tcx, env) {
                                    let bits = si.to_bits(si.size());
                                    o.push(("eval_newtype", J::Obj(vec![
                                        ("path", J::s(self.tcx.def_path_str(adt.did()))),
                                        ("val", J::s(format!("const {}_{}", bits, fty))),
                                    ])));
                                }
                            }
                        }
                    }
                    if t.is_integral() {
                        let env = TypingEnv::post_analysis(self.tcx, self.cur_owner.get());
                        if let Some(si) = c.const_.try_eval_scalar_int(self.tcx, env) {
                            let bits = si.to_bits(si.size());
                            let v = if t.is_signed() { format!("{}", si.size().sign_extend(bits) as i128) } else { format!("{}", bits) };
                            o.push(("eval", J::s(format!("const {}_{}", v, t))));
                        }
                    }
                }
                J::Obj(o)
            }
            #[allow(unreachable_patterns)]
            _ => J::Obj(vec![("k", J::s("otherop")), ("s", J::s(format!("{:?}", op)))]),
        }
    }

    fn callee(&self, did: DefId, args: GenericArgsRef<'tcx>) -> J {
        let tcx = self.tcx;
        let mut o: Vec<(&'static str, J)> = vec![
            ("key", J::s(self.fn_key(did))),
            ("path", J::s(tcx.def_path_str(did))),
            ("name", J::s(tcx.item_name(did).to_string())),
            ("krate", J::s(tcx.crate_name(did.krate).to_string())),
            ("local", J::Bool(did.is_local())),
            ("gargs", self.gargs(args)),
        ];
        // trait method declaration?
        if let Some(tr) = tcx.trait_of_assoc(did) {
            o.push(("trait", J::s(tcx.def_path_str(tr))));
            if let Some(a0) = args.get(0) {
                if let GenericArgKind::Type(t) = a0.kind() {
                    o.push(("self_ty", self.ty(t)));
                }
            }
        } else if matches!(tcx.def_kind(did), DefKind::AssocFn) {
            let parent = tcx.parent(did);
            if let DefKind::Impl { of_trait } = tcx.def_kind(parent) {
                let self_ty = tcx.type_of(parent).instantiate(tcx, args).skip_norm_wip();
                o.push(("impl_self", self.ty(self_ty)));
                if of_trait {
                    let tr = tcx.impl_trait_ref(parent).instantiate_identity().skip_norm_wip();
                    o.push(("impl_trait", J::s(tcx.def_path_str(tr.def_id))));
                }
            }
        }
        if matches!(tcx.def_kind(did), DefKind::Fn | DefKind::AssocFn) {
            let sig = tcx.fn_sig(did).instantiate(tcx, args).skip_norm_wip();
            let is_unsafe = !sig.safety().is_safe();
            o.push(("unsafe", J::Bool(is_unsafe)));
            o.push(("preds", self.call_predicates(did, args)));
            // resolution
            let env = TypingEnv::post_analysis(tcx, self.cur_owner.get());
            match ty::Instance::try_resolve(tcx, env, did, args) {
                Ok(Some(inst)) => {
                    let rd = inst.def_id();
                    o.push((
                        "resolved",
                        J::Obj(vec![
                            ("key", J::s(self.fn_key(rd))),
                            ("krate", J::s(tcx.crate_name(rd.krate).to_string())),
                            ("local", J::Bool(rd.is_local())),
                            ("kind", J::s(format!("{:?}", inst.def).split('(').next().unwrap_or("").to_string())),
                            (
                                "preds",
                                if matches!(inst.def, ty::InstanceKind::Item(_))
                                    && matches!(tcx.def_kind(rd), DefKind::Fn | DefKind::AssocFn)
                                {
                                    self.call_predicates(rd, inst.args)
                                } else {
                                    J::Null
                                },
                            ),
                            ("is_default_method", J::Bool(tcx.trait_of_assoc(rd).is_some())),
                        ]),
                    ));
                }
                _ => o.push(("resolved", J::Null)),
            }
        }
        J::Obj(o)
    }

    fn rvalue(&self, body: &Body<'tcx>, rv: &Rvalue<'tcx>) -> J {
        let tcx = self.tcx;
        match rv {
            Rvalue::Use(op, ..) => J::Obj(vec![("k", J::s("use")), ("op", self.operand(body, op))]),
            Rvalue::Ref(_, bk, p) => J::Obj(vec![
                ("k", J::s("ref")),
                ("mut", J::Bool(matches!(bk, mir::BorrowKind::Mut { .. }))),
                ("place", self.place(body, p)),
            ]),
            Rvalue::RawPtr(kind, p) => J::Obj(vec![
                ("k", J::s("rawptr")),
                ("mut", J::Bool(format!("{:?}", kind).contains("Mut"))),
                ("place", self.place(body, p)),
            ]),
            Rvalue::BinaryOp(op, ab) => J::Obj(vec![
                ("k", J::s("binop")),
                ("op", J::s(format!("{:?}", op))),
                ("a", self.operand(body, &ab.0)),
                ("b", self.operand(body, &ab.1)),
            ]),
            Rvalue::UnaryOp(op, a) => {
                J::Obj(vec![("k", J::s("unop")), ("op", J::s(format!("{:?}", op))), ("a", self.operand(body, a))])
            }
            Rvalue::Cast(kind, op, t) => J::Obj(vec![
                ("k", J::s("cast")),
                ("kind", J::s(format!("{:?}", kind))),
                ("op", self.operand(body, op)),
                ("ty", J::s(format!("{}", t))),
            ]),
            Rvalue::Aggregate(kind, ops) => {
                let mut o = vec![("k", J::s("aggregate"))];
                match &**kind {
                    AggregateKind::Tuple => o.push(("agg", J::s("tuple"))),
                    AggregateKind::Array(_) => o.push(("agg", J::s("array"))),
                    AggregateKind::Adt(did, vidx, _, _, _) => {
                        o.push(("agg", J::s("adt")));
                        o.push(("path", J::s(self.adt_path(*did))));
                        let def = tcx.adt_def(*did);
                        o.push(("variant", J::s(def.variant(*vidx).name.to_string())));
                        o.push((
                            "fields",
                            J::Arr(def.variant(*vidx).fields.iter().map(|f| J::s(f.name.to_string())).collect()),
                        ));
                    }
                    AggregateKind::Closure(did, _) => {
                        o.push(("agg", J::s("closure")));
                        o.push(("def", J::s(self.fn_key(*did))));
                    }
                    _ => o.push(("agg", J::s("other"))),
                }
                o.push(("ops", J::Arr(ops.iter().map(|x| self.operand(body, x)).collect())));
                J::Obj(o)
            }
            Rvalue::Discriminant(p) => {
                let mut o = vec![("k", J::s("discriminant")), ("place", self.place(body, p))];
                let pt = p.ty(&body.local_decls, tcx).ty;
                if let ty::Adt(def, _) = pt.kind() {
                    o.push(("path", J::s(self.adt_path(def.did()))));
                    if def.is_enum() {
                        let mut vs = vec![];
                        for (vi, d) in def.discriminants(tcx) {
                            vs.push(J::Arr(vec![J::n(d.val), J::s(def.variant(vi).name.to_string())]));
                        }
                        o.push(("variants", J::Arr(vs)));
                    }
                }
                J::Obj(o)
            }
            Rvalue::CopyForDeref(p) => J::Obj(vec![
                ("k", J::s("use")),
                ("op", J::Obj(vec![("k", J::s("copy")), ("place", self.place(body, p))])),
            ]),
            Rvalue::Repeat(op, n) => {
                J::Obj(vec![("k", J::s("repeat")), ("op", self.operand(body, op)), ("n", J::s(format!("{}", n)))])
            }
            Rvalue::ThreadLocalRef(_) => J::Obj(vec![("k", J::s("tls"))]),
            #[allow(unreachable_patterns)]
            _ => J::Obj(vec![("k", J::s("other")), ("s", J::s(format!("{:?}", rv)))]),
        }
    }

    fn unwind(&self, u: &UnwindAction) -> J {
        match u {
            UnwindAction::Continue => J::s("continue"),
            UnwindAction::Unreachable => J::s("unreachable"),
            UnwindAction::Terminate(_) => J::s("terminate"),
            UnwindAction::Cleanup(bb) => J::n(bb.as_usize()),
        }
    }

    fn bb(&self, b: BasicBlock) -> J {
        J::n(b.as_usize())
    }

    fn body(&self, body: &Body<'tcx>) -> J {
        let tcx = self.tcx;
        // locals
        let mut names: Vec<Option<String>> = vec![None; body.local_decls.len()];
        let mut upvars = vec![];
        for vdi in &body.var_debug_info {
            if let mir::VarDebugInfoContents::Place(p) = &vdi.value {
                if p.projection.is_empty() {
                    names[p.local.as_usize()] = Some(vdi.name.to_string());
                } else {
                    upvars.push(J::Obj(vec![("name", J::s(vdi.name.to_string())), ("place", self.place(body, p))]));
                }
            }
        }
        let locals: Vec<J> = body
            .local_decls
            .iter_enumerated()
            .map(|(l, d)| {
                J::Obj(vec![
                    ("ty", self.ty(d.ty)),
                    ("name", J::opt(names[l.as_usize()].clone().map(J::s))),
                    ("arg", J::Bool(l.as_usize() >= 1 && l.as_usize() <= body.arg_count)),
                    ("mut", J::Bool(d.mutability.is_mut())),
                ])
            })
            .collect();
        let mut blocks = vec![];
        for (_bb, data) in body.basic_blocks.iter_enumerated() {
            let mut stmts = vec![];
            for st in &data.statements {
                match &st.kind {
                    StatementKind::Assign(b) => {
                        let (p, rv) = &**b;
                        stmts.push(J::Obj(vec![
                            ("k", J::s("assign")),
                            ("place", self.place(body, p)),
                            ("rv", self.rvalue(body, rv)),
                            ("span", self.span(st.source_info.span)),
                        ]));
                    }
                    StatementKind::SetDiscriminant { place, variant_index } => {
                        stmts.push(J::Obj(vec![
                            ("k", J::s("setdiscr")),
                            ("place", self.place(body, place)),
                            ("variant", J::n(variant_index.as_usize())),
                            ("span", self.span(st.source_info.span)),
                        ]));
                    }
                    StatementKind::Intrinsic(i) => {
                        stmts.push(J::Obj(vec![
                            ("k", J::s("intrinsic")),
                            ("s", J::s(format!("{:?}", i))),
                            ("span", self.span(st.source_info.span)),
                        ]));
                    }
                    _ => {}
                }
            }
            let term = data.terminator();
            let tspan = self.span(term.source_info.span);
            let t = match &term.kind {
                TerminatorKind::Goto { target } => J::Obj(vec![("k", J::s("goto")), ("target", self.bb(*target))]),
                TerminatorKind::SwitchInt { discr, targets } => {
                    let mut ts = vec![];
                    for (v, bb) in targets.iter() {
                        ts.push(J::Arr(vec![J::n(v), self.bb(bb)]));
                    }
                    J::Obj(vec![
                        ("k", J::s("switch")),
                        ("discr", self.operand(body, discr)),
                        ("targets", J::Arr(ts)),
                        ("otherwise", self.bb(targets.otherwise())),
                    ])
                }
                TerminatorKind::Return => J::Obj(vec![("k", J::s("return"))]),
                TerminatorKind::UnwindResume => J::Obj(vec![("k", J::s("resume"))]),
                TerminatorKind::UnwindTerminate(_) => J::Obj(vec![("k", J::s("terminate"))]),
                TerminatorKind::Unreachable => J::Obj(vec![("k", J::s("unreachable"))]),
                TerminatorKind::Drop { place, target, unwind, .. } => J::Obj(vec![
                    ("k", J::s("drop")),
                    ("place", self.place(body, place)),
                    ("target", self.bb(*target)),
                    ("unwind", self.unwind(unwind)),
                ]),
                TerminatorKind::Call { func, args, destination, target, unwind, .. } => {
                    let mut o = vec![("k", J::s("call"))];
                    match func {
                        Operand::Constant(c) => {
                            if let ty::FnDef(did, gargs) = c.const_.ty().kind() {
                                o.push(("func", self.callee(*did, gargs)));
                            } else {
                                o.push(("func_op", self.operand(body, func)));
                            }
                        }
                        _ => o.push(("func_op", self.operand(body, func))),
                    }
                    o.push(("args", J::Arr(args.iter().map(|a| self.operand(body, &a.node)).collect())));
                    o.push(("dest", self.place(body, destination)));
                    o.push(("target", J::opt(target.map(|t| self.bb(t)))));
                    o.push(("unwind", self.unwind(unwind)));
                    J::Obj(o)
                }
                TerminatorKind::Assert { cond, expected, msg, target, unwind } => J::Obj(vec![
                    ("k", J::s("assert")),
                    ("cond", self.operand(body, cond)),
                    ("expected", J::Bool(*expected)),
                    ("msg", J::s(format!("{:?}", std::mem::discriminant(&**msg)))),
                    ("msg_s", J::s(format!("{:?}", msg))),
                    ("target", self.bb(*target)),
                    ("unwind", self.unwind(unwind)),
                ]),
                TerminatorKind::FalseEdge { real_target, .. } => {
                    J::Obj(vec![("k", J::s("goto")), ("target", self.bb(*real_target))])
                }
                TerminatorKind::FalseUnwind { real_target, .. } => {
                    J::Obj(vec![("k", J::s("goto")), ("target", self.bb(*real_target))])
                }
                other => J::Obj(vec![("k", J::s("otherterm")), ("s", J::s(format!("{:?}", other)))]),
            };
            let mut tt = match t {
                J::Obj(v) => v,
                _ => unreachable!(),
            };
            tt.push(("span", tspan));
            blocks.push(J::Obj(vec![
                ("stmts", J::Arr(stmts)),
                ("term", J::Obj(tt)),
                ("cleanup", J::Bool(data.is_cleanup)),
            ]));
        }
        let _ = tcx;
        J::Obj(vec![
            ("arg_count", J::n(body.arg_count)),
            ("locals", J::Arr(locals)),
            ("upvars", J::Arr(upvars)),
            ("blocks", J::Arr(blocks)),
        ])
    }

    // ---------------------------------------------------------------- items
    fn func(&self, ldid: LocalDefId) -> J {
        let tcx = self.tcx;
        let did = ldid.to_def_id();
        self.cur_owner.set(did);
        let kind = tcx.def_kind(did);
        let mut o: Vec<(&'static str, J)> = vec![
            ("key", J::s(self.fn_key(did))),
            ("path", J::s(tcx.def_path_str(did))),
            ("kind", J::s(format!("{:?}", kind))),
            ("span", self.span(tcx.def_span(did))),
        ];
        if matches!(kind, DefKind::Fn | DefKind::AssocFn) {
            o.push(("name", J::s(tcx.item_name(did).to_string())));
            let vis = tcx.visibility(did);
            o.push(("pub", J::Bool(vis.is_public())));
            let ev = tcx.effective_visibilities(());
            o.push(("exported", J::Bool(ev.is_exported(ldid))));
            o.push(("reachable", J::Bool(ev.is_reachable(ldid))));
            let sig = tcx.fn_sig(did).instantiate_identity().skip_norm_wip().skip_binder();
            o.push(("unsafe", J::Bool(!sig.safety().is_safe())));
            o.push(("inputs", J::Arr(sig.inputs().iter().map(|t| self.ty(*t)).collect())));
            o.push(("output", self.ty(sig.output())));
            o.push(("preds", self.own_predicates(did)));
            let g = tcx.generics_of(did);
            o.push(("generics", J::Arr(g.own_params.iter().map(|p| J::s(p.name.to_string())).collect())));
            o.push(("auto_derived", J::Bool(tcx.is_automatically_derived(did))));
            if kind == DefKind::AssocFn {
                let parent = tcx.parent(did);
                o.push(("parent", J::s(tcx.def_path_str(parent))));
                if let DefKind::Impl { of_trait } = tcx.def_kind(parent) {
                    let self_ty = tcx.type_of(parent).instantiate_identity().skip_norm_wip();
                    o.push(("impl_self", self.ty(self_ty)));
                    o.push(("auto_derived", J::Bool(tcx.is_automatically_derived(parent))));
                    if of_trait {
                        let tr = tcx.impl_trait_ref(parent).instantiate_identity().skip_norm_wip();
                        o.push(("impl_trait", J::s(tcx.def_path_str(tr.def_id))));
                        o.push(("impl_trait_desc", J::s(self.trait_desc(tr))));
                    }
                }
            }
        } else {
            o.push(("parent_fn", J::s(self.fn_key(tcx.parent(did)))));
        }
        if tcx.is_mir_available(did) {
            let body = tcx.optimized_mir(did);
            o.push(("body", self.body(body)));
            // promoted constants (e.g. `&[Position(1), Position(2)]`) live in their own bodies
            let proms = tcx.promoted_mir(did);
            o.push(("promoted", J::Arr(proms.iter().map(|b| self.body(b)).collect())));
        } else {
            o.push(("body", J::Null));
        }
        J::Obj(o)
    }

    fn krate(&self, name: &str) -> J {
        let tcx = self.tcx;
        let mut fns = vec![];
        let mut adts = vec![];
        let mut impls = vec![];
        let mut traits_used = vec![];
        for ldid in tcx.hir_body_owners() {
            let kind = tcx.def_kind(ldid);
            if matches!(kind, DefKind::Fn | DefKind::AssocFn | DefKind::Closure) {
                fns.push(self.func(ldid));
            }
        }
        for id in tcx.hir_free_items() {
            let ldid = id.owner_id.def_id;
            let did = ldid.to_def_id();
            self.cur_owner.set(did);
            match tcx.def_kind(did) {
                DefKind::Struct | DefKind::Enum | DefKind::Union => {
                    let def = tcx.adt_def(did);
                    let self_ty = tcx.type_of(did).instantiate_identity().skip_norm_wip();
                    let env = TypingEnv::post_analysis(tcx, did);
                    let mut variants = vec![];
                    for v in def.variants() {
                        let fields: Vec<J> = v
                            .fields
                            .iter()
                            .map(|f| {
                                let fty = tcx.type_of(f.did).instantiate_identity().skip_norm_wip();
                                J::Obj(vec![
                                    ("name", J::s(f.name.to_string())),
                                    ("ty", self.ty(fty)),
                                    ("pub", J::Bool(f.vis.is_public())),
                                ])
                            })
                            .collect();
                        variants.push(J::Obj(vec![("name", J::s(v.name.to_string())), ("fields", J::Arr(fields))]));
                    }
                    let g = tcx.generics_of(did);
                    adts.push(J::Obj(vec![
                        ("path", J::s(self.adt_path(did))),
                        ("kind", J::s(format!("{:?}", tcx.def_kind(did)))),
                        ("pub", J::Bool(tcx.visibility(did).is_public())),
                        ("generics", J::Arr(g.own_params.iter().map(|p| J::s(p.name.to_string())).collect())),
                        ("variants", J::Arr(variants)),
                        ("needs_drop", J::Bool(self_ty.needs_drop(tcx, env))),
                        ("copy", J::Bool(tcx.type_is_copy_modulo_regions(env, self_ty))),
                        ("has_dtor", J::Bool(def.has_dtor(tcx))),
                        ("span", self.span(tcx.def_span(did))),
                    ]));
                }
                DefKind::Impl { of_trait } => {
                    let self_ty = tcx.type_of(did).instantiate_identity().skip_norm_wip();
                    let mut o = vec![
                        ("path", J::s(tcx.def_path_str(did))),
                        ("self", self.ty(self_ty)),
                        ("self_desc", J::s(self.self_desc(self_ty))),
                        ("auto_derived", J::Bool(tcx.is_automatically_derived(did))),
                        ("preds", self.own_predicates(did)),
                        ("span", self.span(tcx.def_span(did))),
                    ];
                    if of_trait {
                        let tr = tcx.impl_trait_ref(did).instantiate_identity().skip_norm_wip();
                        o.push(("trait", J::s(tcx.def_path_str(tr.def_id))));
                        o.push(("trait_desc", J::s(self.trait_desc(tr))));
                        o.push(("trait_args", self.gargs(tr.args)));
                        traits_used.push(tr.def_id);
                    } else {
                        o.push(("trait", J::Null));
                    }
                    let mut items = vec![];
                    for it in tcx.associated_items(did).in_definition_order() {
                        let mut io = vec![
                            ("name", J::s(it.name().to_string())),
                            ("kind", J::s(format!("{:?}", it.tag()))),
                            ("key", J::s(self.fn_key(it.def_id))),
                        ];
                        if format!("{:?}", it.tag()) == "Type" {
                            let t = tcx.type_of(it.def_id).instantiate_identity().skip_norm_wip();
                            io.push(("ty", self.ty(t)));
                        }
                        items.push(J::Obj(io));
                    }
                    o.push(("items", J::Arr(items)));
                    impls.push(J::Obj(o));
                }
                _ => {}
            }
        }
        J::Obj(vec![
            ("crate", J::s(name)),
            ("pid", J::n(std::process::id())),
            ("features", J::s(std::env::var("PQFACTS_CONFIG").unwrap_or_default())),
            ("rustc", J::s(option_env!("CFG_VERSION").unwrap_or("nightly").to_string())),
            ("adts", J::Arr(adts)),
            ("impls", J::Arr(impls)),
            ("fns", J::Arr(fns)),
        ])
    }
}

fn main() {
    let mut args: Vec<String> = std::env::args().collect();
    // RUSTC_WORKSPACE_WRAPPER mode: argv = [drv, rustc, args...]
    args.remove(0);
    rustc_driver::run_compiler(&args, &mut Cb);
}
