//! Compile-fail witnesses (type-level remainder of C01/C02/C08/C12/C16).
//! Every `compile_fail,E…` doctest is paired with a compiling twin that differs only by the offending line,
//! so a witness that fails to compile for the wrong reason (wrong path, wrong API) is detected.
//! The twins are `no_run`: they are type-checked, never executed.
//! Run with `cargo +nightly test --doc --offline` (error codes are honoured on nightly only).

/// W1a — the priority is not writable through `get_mut` (C01/C02/C12).
/// ```compile_fail,E0594
/// let mut pq = priority_queue::PriorityQueue::<u32, u32>::new();
/// pq.push(1, 1);
/// let (_item, prio) = pq.get_mut(&1).unwrap();
/// *prio = 7;
/// ```
/// twin:
/// ```no_run
/// let mut pq = priority_queue::PriorityQueue::<u32, u32>::new();
/// pq.push(1, 1);
/// let (_item, prio) = pq.get_mut(&1).unwrap();
/// assert_eq!(*prio, 1);
/// ```
pub struct W1a;

/// W1b — nor through `peek_mut` of the single-ended queue.
/// ```compile_fail,E0594
/// let mut pq = priority_queue::PriorityQueue::<u32, u32>::new();
/// pq.push(1, 1);
/// let (_item, prio) = pq.peek_mut().unwrap();
/// *prio = 7;
/// ```
/// twin:
/// ```no_run
/// let mut pq = priority_queue::PriorityQueue::<u32, u32>::new();
/// pq.push(1, 1);
/// let (item, prio) = pq.peek_mut().unwrap();
/// *item = 1;
/// assert_eq!(*prio, 1);
/// ```
pub struct W1b;

/// W1c — nor through `peek_min_mut` / `peek_max_mut` / `get_mut` of the double-ended queue.
/// ```compile_fail,E0594
/// let mut pq = priority_queue::DoublePriorityQueue::<u32, u32>::new();
/// pq.push(1, 1);
/// let (_item, prio) = pq.peek_min_mut().unwrap();
/// *prio = 7;
/// ```
/// ```compile_fail,E0594
/// let mut pq = priority_queue::DoublePriorityQueue::<u32, u32>::new();
/// pq.push(1, 1);
/// let (_item, prio) = pq.peek_max_mut().unwrap();
/// *prio = 7;
/// ```
/// ```compile_fail,E0594
/// let mut pq = priority_queue::DoublePriorityQueue::<u32, u32>::new();
/// pq.push(1, 1);
/// let (_item, prio) = pq.get_mut(&1).unwrap();
/// *prio = 7;
/// ```
/// twin:
/// ```no_run
/// let mut pq = priority_queue::DoublePriorityQueue::<u32, u32>::new();
/// pq.push(1, 1);
/// { let (item, prio) = pq.peek_min_mut().unwrap(); *item = 1; assert_eq!(*prio, 1); }
/// { let (item, prio) = pq.peek_max_mut().unwrap(); *item = 1; assert_eq!(*prio, 1); }
/// { let (item, prio) = pq.get_mut(&1).unwrap(); *item = 1; assert_eq!(*prio, 1); }
/// ```
pub struct W1c;

/// W1d — nor through `iter()`.
/// ```compile_fail,E0594
/// let mut pq = priority_queue::PriorityQueue::<u32, u32>::new();
/// pq.push(1, 1);
/// for (_item, prio) in pq.iter() {
///     *prio = 7;
/// }
/// ```
/// twin:
/// ```no_run
/// let mut pq = priority_queue::PriorityQueue::<u32, u32>::new();
/// pq.push(1, 1);
/// for (_item, prio) in pq.iter() {
///     assert_eq!(*prio, 1);
/// }
/// ```
pub struct W1d;

/// W2a — nobody can use the queue while an `IterMut` (which leaves the heap un-rebuilt until dropped) is alive (C08).
/// ```compile_fail,E0499
/// let mut pq = priority_queue::PriorityQueue::<u32, u32>::new();
/// pq.push(1, 1);
/// let mut it = pq.iter_mut();
/// pq.push(2, 2);
/// it.next();
/// ```
/// ```compile_fail,E0499
/// let mut pq = priority_queue::DoublePriorityQueue::<u32, u32>::new();
/// pq.push(1, 1);
/// let mut it = pq.iter_mut();
/// pq.pop_max();
/// it.next_back();
/// ```
/// twin:
/// ```no_run
/// let mut pq = priority_queue::PriorityQueue::<u32, u32>::new();
/// pq.push(1, 1);
/// let mut it = pq.iter_mut();
/// it.next();
/// drop(it);
/// pq.push(2, 2);
/// let mut dq = priority_queue::DoublePriorityQueue::<u32, u32>::new();
/// dq.push(1, 1);
/// let mut it = dq.iter_mut();
/// it.next_back();
/// drop(it);
/// dq.pop_max();
/// ```
pub struct W2a;

/// W2b — nor observe the half-drained store while a `Drain` is alive (C16).
/// ```compile_fail,E0502
/// let mut pq = priority_queue::PriorityQueue::<u32, u32>::new();
/// pq.push(1, 1);
/// let mut d = pq.drain();
/// let _n = pq.len();
/// d.next();
/// ```
/// twin:
/// ```no_run
/// let mut pq = priority_queue::PriorityQueue::<u32, u32>::new();
/// pq.push(1, 1);
/// let mut d = pq.drain();
/// d.next();
/// drop(d);
/// let _n = pq.len();
/// ```
pub struct W2b;

/// W3 — an `IterMut` / `Drain` cannot outlive its queue (C08, C16).
/// ```compile_fail,E0597
/// let mut it;
/// {
///     let mut pq = priority_queue::PriorityQueue::<u32, u32>::new();
///     pq.push(1, 1);
///     it = pq.iter_mut();
/// }
/// it.next();
/// ```
/// ```compile_fail,E0597
/// let mut d;
/// {
///     let mut pq = priority_queue::DoublePriorityQueue::<u32, u32>::new();
///     pq.push(1, 1);
///     d = pq.drain();
/// }
/// d.next();
/// ```
/// twin:
/// ```no_run
/// let mut pq = priority_queue::PriorityQueue::<u32, u32>::new();
/// pq.push(1, 1);
/// let mut it;
/// {
///     it = pq.iter_mut();
/// }
/// it.next();
/// drop(it);
/// let mut dq = priority_queue::DoublePriorityQueue::<u32, u32>::new();
/// dq.push(1, 1);
/// let mut d;
/// {
///     d = dq.drain();
/// }
/// d.next();
/// ```
pub struct W3;
