// finding1 - C04 (and the guard of C09): the references handed out by `iter_mut`
// outlive the iterator, but the iterator still reads (and re-borrows) the whole
// map behind their back.
//
// `IterMut::next` / `next_back` (src/priority_queue/iterators.rs:87-99,
// src/double_priority_queue/iterators.rs:94-108 and 121-135) produce
// `(&'a mut I, &'a mut P)` by laundering the borrow through raw pointers, where
// `'a` is the lifetime of the *queue* borrow and not of the iterator.  Safe code
// may therefore keep (or send to another thread) a yielded `&mut P` while
//   (a) the iterator is advanced again: `get_index_mut2` re-borrows the whole
//       entries slice mutably -> aliasing violation (Stacked AND Tree Borrows);
//   (b) the iterator is dropped: `Drop for IterMut` runs `heap_build`, which
//       reads every priority through `&P` and hands them to `Ord::cmp`
//       (src/priority_queue/iterators.rs:102-109, .../double_priority_queue/iterators.rs:155-162)
//       -> a `&P` and a live `&mut P` to the same element exist at the same time;
//       with a second thread this is a plain data race in 100% safe code.
//
// How to run
//   cargo test --offline --test finding1
//       `shared_borrow_changes_during_cmp_*` FAIL deterministically: a value
//       behind the `&P` that the queue passed to `Ord::cmp` is overwritten (and
//       its heap buffer freed) by safe code in the middle of the comparison.
//       `collected_refs_*` FAIL as well (observable consequence: the rebuild
//       promised by the docs happens before the writes).
//   cargo +nightly miri test --offline --test finding1 -- --exact <name>
//       every test is reported as Undefined Behavior (aliasing violation or
//       data race); see REPORT.md for the messages.
//
// All user code below is safe Rust; `Pr`'s `Ord` is a total order on `key`,
// consistent with `Eq`; no closure panics.

use priority_queue::{DoublePriorityQueue, PriorityQueue};
use std::cmp::Ordering;
use std::sync::atomic::{AtomicU32, Ordering::SeqCst};
use std::sync::Arc;

// ---------------------------------------------------------------------------
// (1) deterministic, plain `cargo test`: the comparison made by the drop of the
//     iterator observes its `&self` argument being overwritten.
// ---------------------------------------------------------------------------

/// 9 = disarmed, 0 = armed, 1 = "cmp is running, writer please go", 2 = "writer done", 3 = "quit"
type Stage = Arc<AtomicU32>;

#[derive(Debug)]
struct Pr {
    key: u32,
    generation: u32,
    text: String,
    hook: Option<Stage>,
}
impl PartialEq for Pr {
    fn eq(&self, o: &Self) -> bool {
        self.key == o.key
    }
}
impl Eq for Pr {}
impl PartialOrd for Pr {
    fn partial_cmp(&self, o: &Self) -> Option<Ordering> {
        Some(self.cmp(o))
    }
}
impl Ord for Pr {
    fn cmp(&self, o: &Self) -> Ordering {
        for side in [self, o] {
            if let Some(stage) = side.hook.clone() {
                // `side` is a shared borrow handed to us by the queue.
                let text_before: &str = &side.text;
                let copy = text_before.to_owned();
                let generation_before = side.generation;
                if stage.compare_exchange(0, 1, SeqCst, SeqCst).is_ok() {
                    while stage.load(SeqCst) == 1 {
                        std::thread::yield_now();
                    }
                    // Nothing may have changed behind a `&Pr`.
                    assert_eq!(
                        side.generation, generation_before,
                        "the value behind the shared reference passed to Ord::cmp was overwritten during the call"
                    );
                    assert_eq!(
                        text_before, copy,
                        "a &str borrowed from the compared priority changed (its buffer was freed) during Ord::cmp"
                    );
                }
            }
        }
        self.key.cmp(&o.key)
    }
}

fn pr(key: u32, hook: Option<Stage>) -> Pr {
    Pr {
        key,
        generation: 0,
        text: "x".repeat(48),
        hook,
    }
}

macro_rules! shared_borrow_test {
    ($name:ident, $Q:ident) => {
        #[test]
        fn $name() {
            // 9 = disarmed: the comparisons made by `push` do nothing special
            let stage: Stage = Arc::new(AtomicU32::new(9));
            let mut pq: $Q<u32, Pr> = $Q::new();
            for k in 0..8u32 {
                pq.push(k, pr(k, Some(stage.clone())));
            }

            let mut it = pq.iter_mut();
            let refs: Vec<(&mut u32, &mut Pr)> = it.by_ref().collect();
            std::thread::scope(|s| {
                let stage2 = stage.clone();
                s.spawn(move || loop {
                    match stage2.load(SeqCst) {
                        1 => {
                            // legitimately owned `&mut Pr`s: overwrite all of them
                            for (_, p) in refs {
                                let hook = p.hook.clone();
                                *p = Pr {
                                    key: p.key,
                                    generation: p.generation + 1,
                                    text: "y".repeat(48),
                                    hook,
                                };
                            }
                            stage2.store(2, SeqCst);
                            break;
                        }
                        3 => break,
                        _ => std::thread::yield_now(),
                    }
                });
                // arm: the first comparison from now on performs the handshake
                stage.store(0, SeqCst);
                // heap_build compares priorities while the other thread owns `&mut` to them
                let r = std::panic::catch_unwind(std::panic::AssertUnwindSafe(move || drop(it)));
                stage.store(3, SeqCst);
                if let Err(e) = r {
                    std::panic::resume_unwind(e);
                }
            });
        }
    };
}
shared_borrow_test!(shared_borrow_changes_during_cmp_pq, PriorityQueue);
shared_borrow_test!(shared_borrow_changes_during_cmp_dpq, DoublePriorityQueue);

// ---------------------------------------------------------------------------
// (2) single threaded, plain `cargo test`: the rebuild on drop runs while the
//     yielded references are still usable, i.e. *before* the writes.
//     (Under miri / Stacked Borrows the write itself is flagged.)
// ---------------------------------------------------------------------------
#[test]
fn collected_refs_pq() {
    let mut pq: PriorityQueue<u32, u32> = (0..8u32).map(|i| (i, i)).collect();
    let refs: Vec<(&mut u32, &mut u32)> = pq.iter_mut().collect(); // iterator dropped here
    for (i, p) in refs {
        *p = 100 - *i; // reverse the order of the priorities
    }
    // "When the iterator goes out of scope, the heap is rebuilt" - but it went
    // out of scope before the writes, which it cannot prevent.
    assert_eq!(pq.peek().map(|(i, p)| (*i, *p)), Some((0, 100)));
}

#[test]
fn collected_refs_dpq() {
    let mut pq: DoublePriorityQueue<u32, u32> = (0..8u32).map(|i| (i, i)).collect();
    let refs: Vec<(&mut u32, &mut u32)> = pq.iter_mut().rev().collect();
    for (i, p) in refs {
        *p = 100 - *i;
    }
    assert_eq!(pq.peek_max().map(|(i, p)| (*i, *p)), Some((0, 100)));
    assert_eq!(pq.peek_min().map(|(i, p)| (*i, *p)), Some((7, 93)));
}

// ---------------------------------------------------------------------------
// (3) miri only (these pass in a plain build): aliasing of the yielded
//     references with the re-borrow made by the next call.
// ---------------------------------------------------------------------------
#[test]
fn miri_pq_write_next_write() {
    let mut pq: PriorityQueue<u32, u32> = (0..4u32).map(|i| (i, i)).collect();
    let mut it = pq.iter_mut();
    let (_, a) = it.next().unwrap();
    *a += 10;
    let (_, b) = it.next().unwrap();
    *b += 10;
    *a += 10; // UB under Stacked Borrows and under Tree Borrows
    drop(it);
    assert_eq!(pq.len(), 4);
}

#[test]
fn miri_dpq_write_next_back_write() {
    let mut pq: DoublePriorityQueue<u32, u32> = (0..4u32).map(|i| (i, i)).collect();
    let mut it = pq.iter_mut();
    let (_, a) = it.next().unwrap();
    *a += 10;
    let (_, b) = it.next_back().unwrap();
    *b += 10;
    *a += 10; // UB under Stacked Borrows and under Tree Borrows
    drop(it);
    assert_eq!(pq.len(), 4);
}

#[test]
fn miri_pq_data_race_on_drop() {
    let mut pq: PriorityQueue<u32, u32> = (0..8u32).map(|i| (i, i)).collect();
    let mut it = pq.iter_mut();
    let (_, p) = it.next().unwrap();
    std::thread::scope(|s| {
        s.spawn(move || {
            for k in 0..100 {
                *p = k;
            }
        });
        drop(it); // heap_build reads *p without synchronisation
    });
    assert_eq!(pq.len(), 8);
}

#[test]
fn miri_dpq_data_race_on_drop() {
    let mut pq: DoublePriorityQueue<u32, u32> = (0..8u32).map(|i| (i, i)).collect();
    let mut it = pq.iter_mut();
    let (_, p) = it.next().unwrap();
    std::thread::scope(|s| {
        s.spawn(move || {
            for k in 0..100 {
                *p = k;
            }
        });
        drop(it);
    });
    assert_eq!(pq.len(), 8);
}

// Even a std adaptor alone is enough under Stacked Borrows: `Iterator::last` (via
// `fold`) keeps the previous item while it calls `next` and then moves it into
// the folding closure.  (Found by the white-box fuzzer under miri.)
#[test]
fn miri_sb_iter_mut_last() {
    let mut pq: DoublePriorityQueue<String, String> =
        (0..3).map(|i| (format!("i{i}"), format!("p{i}"))).collect();
    assert!(pq.iter_mut().last().is_some());
    let mut pq: PriorityQueue<String, String> =
        (0..3).map(|i| (format!("i{i}"), format!("p{i}"))).collect();
    assert!(pq.iter_mut().last().is_some());
}
