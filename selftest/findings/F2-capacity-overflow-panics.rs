// finding2 (minor, literal reading of C04): capacity-overflow panics that are NOT
// "the documented capacity-overflow panics of reserve".
//
// C04 exempts only the documented panic of `reserve` (the only method whose doc
// comment has a `# Panics` section).  The following safe calls, with no user code
// involved at all, panic with "capacity overflow" as well:
//   * the constructors `with_capacity` / `with_capacity_and_hasher` /
//     `with_capacity_and_default_hasher` (src/store.rs:127-134,
//     `IndexMap::with_capacity_and_hasher` / `Vec::with_capacity`);
//   * `reserve_exact` (src/store.rs:180-184; its doc has no `# Panics` section).
// `try_reserve` / `try_reserve_exact` correctly return Err for the same request.
//
// cargo test --offline --test finding2      -> 4 tests FAIL (they panic)
use priority_queue::{DoublePriorityQueue, PriorityQueue};

#[test]
fn pq_with_capacity_huge() {
    let pq: PriorityQueue<u8, u8> = PriorityQueue::with_capacity(usize::MAX);
    assert!(pq.is_empty());
}

#[test]
fn dpq_with_capacity_huge() {
    let pq: DoublePriorityQueue<u8, u8> = DoublePriorityQueue::with_capacity(usize::MAX);
    assert!(pq.is_empty());
}

#[test]
fn pq_reserve_exact_huge() {
    let mut pq: PriorityQueue<u8, u8> = PriorityQueue::new();
    pq.push(1, 1);
    assert!(pq.try_reserve_exact(usize::MAX).is_err()); // fine
    pq.reserve_exact(usize::MAX); // panics: capacity overflow (undocumented)
}

#[test]
fn dpq_reserve_exact_huge() {
    let mut pq: DoublePriorityQueue<u8, u8> = DoublePriorityQueue::new();
    pq.push(1, 1);
    assert!(pq.try_reserve_exact(usize::MAX).is_err());
    pq.reserve_exact(usize::MAX);
}
