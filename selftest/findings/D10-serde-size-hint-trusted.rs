#![cfg(feature = "serde")]
// C15 (through serde tokens): deserializing a well-typed sequence of (item, priority) pairs panics when the
// deserializer's SeqAccess::size_hint() is larger than what the sequence really holds.
//
// The hint is only a hint: serde's own collections (Vec, HashMap, ...) and indexmap's IndexMap clamp it
// ("cautious" size hint) because for length-prefixed formats it comes straight from untrusted input.
// Store's visitor (src/store.rs, StoreVisitor::visit_seq, lines 708-712) passes it unclamped to
// Store::with_capacity_and_default_hasher(size), so
//   * len = usize::MAX        -> panic "Hash table capacity overflow" (hashbrown) inside deserialize;
//   * len = 1 << 44 (and alike) -> "memory allocation of ... bytes failed", process abort (SIGABRT).
// Expected by C15: an error or a correct queue holding {1: 2}; never a panic.
//
// Run: cargo test --offline --features serde --test finding1
use priority_queue::{DoublePriorityQueue, PriorityQueue};
use serde_test::{assert_de_tokens, Token};

fn tokens(len: usize) -> Vec<Token> {
    vec![
        Token::Seq { len: Some(len) },
        Token::Tuple { len: 2 },
        Token::I32(1),
        Token::I32(2),
        Token::TupleEnd,
        Token::SeqEnd,
    ]
}

// control: the same token stream is accepted by Vec<(i32, i32)> (and by indexmap::IndexMap with its serde feature)
#[test]
fn control_vec_accepts_the_same_tokens() {
    assert_de_tokens(&vec![(1i32, 2i32)], &tokens(usize::MAX));
}

#[test]
fn priority_queue_panics_on_oversized_size_hint() {
    let mut expected = PriorityQueue::<i32, i32>::new();
    expected.push(1, 2);
    // panics: "Hash table capacity overflow"
    assert_de_tokens(&expected, &tokens(usize::MAX));
}

#[test]
fn double_priority_queue_panics_on_oversized_size_hint() {
    let mut expected = DoublePriorityQueue::<i32, i32>::new();
    expected.push(1, 2);
    assert_de_tokens(&expected, &tokens(usize::MAX));
}

// Not run by default because it aborts the whole test process instead of panicking:
// cargo test --offline --features serde --test finding1 -- --ignored
#[test]
#[ignore]
fn priority_queue_aborts_on_large_size_hint() {
    let mut expected = PriorityQueue::<i32, i32>::new();
    expected.push(1, 2);
    assert_de_tokens(&expected, &tokens(1usize << 44));
}
