//! Positive fixture for the zero-count rules: one instance of each construct the rules forbid in
//! priority-queue.  It is extracted with the same driver on every run; a rule that does not match its
//! instance here is blind, and the check fails closed (CHECK-ERROR) instead of passing vacuously.
use indexmap::IndexMap;
use std::hash::{BuildHasher, Hash};

/// R-NOHASH: looks at the hasher and at a raw hash value
pub fn fx_nohash<K: Hash + Eq, S: BuildHasher>(m: &IndexMap<K, u32, S>, k: &K) -> u64 {
    m.hasher().hash_one(k)
}

/// R-UNSAFEKINDS: ownership-duplicating / forgetting operations
pub fn fx_unsafekinds(v: Vec<String>, x: &String) -> String {
    let y = unsafe { std::ptr::read(x) };
    std::mem::forget(v);
    y
}

/// R-UNSAFEKINDS: an unsafe call outside the three kinds the crate is built from
pub fn fx_unsafe_call(v: &mut Vec<u8>) {
    unsafe { v.set_len(0) }
}

/// R-HINT: the upper bound of a size_hint reaches an allocation request and checked arithmetic
pub fn fx_hint<I: Iterator<Item = u8>>(it: I, v: &mut Vec<u8>) -> usize {
    let (_, upper) = it.size_hint();
    if let Some(max) = upper {
        v.reserve(max);
        return max + 1;
    }
    0
}

/// R-CAPFWD (capacity-invisibility): a capacity() result used in a branch
pub fn fx_capacity(a: &Vec<u8>, b: &Vec<u8>) -> bool {
    a.capacity() > b.capacity()
}

/// R-SELFMADE: a correct hand-written two-cursor iterator ...
pub struct GoodCursor<'a> {
    entries: &'a [u32],
    pos: usize,
    pos_back: usize,
}
impl<'a> Iterator for GoodCursor<'a> {
    type Item = &'a u32;
    fn next(&mut self) -> Option<&'a u32> {
        if self.pos >= self.pos_back {
            return None;
        }
        let r = self.entries.get(self.pos);
        self.pos += 1;
        r
    }
    fn size_hint(&self) -> (usize, Option<usize>) {
        let n = self.len();
        (n, Some(n))
    }
}
impl<'a> DoubleEndedIterator for GoodCursor<'a> {
    fn next_back(&mut self) -> Option<&'a u32> {
        if self.pos < self.pos_back {
            self.pos_back -= 1;
            self.entries.get(self.pos_back)
        } else {
            None
        }
    }
}
impl<'a> ExactSizeIterator for GoodCursor<'a> {
    fn len(&self) -> usize {
        self.pos_back - self.pos
    }
}

/// ... and two broken ones: `next` ignores the back cursor; `next` moves the cursor even when it yields nothing
pub struct BadCursorA<'a> {
    entries: &'a [u32],
    pos: usize,
    pos_back: usize,
}
impl<'a> Iterator for BadCursorA<'a> {
    type Item = &'a u32;
    fn next(&mut self) -> Option<&'a u32> {
        let r = self.entries.get(self.pos)?;
        self.pos += 1;
        Some(r)
    }
    fn size_hint(&self) -> (usize, Option<usize>) {
        let n = self.len();
        (n, Some(n))
    }
}
impl<'a> DoubleEndedIterator for BadCursorA<'a> {
    fn next_back(&mut self) -> Option<&'a u32> {
        if self.pos >= self.pos_back {
            return None;
        }
        self.pos_back -= 1;
        self.entries.get(self.pos_back)
    }
}
impl<'a> ExactSizeIterator for BadCursorA<'a> {
    fn len(&self) -> usize {
        self.pos_back - self.pos
    }
}
pub struct BadCursorB<'a> {
    entries: &'a [u32],
    pos: usize,
}
impl<'a> Iterator for BadCursorB<'a> {
    type Item = &'a u32;
    fn next(&mut self) -> Option<&'a u32> {
        let r = self.entries.get(self.pos);
        self.pos += 1;
        r
    }
    fn size_hint(&self) -> (usize, Option<usize>) {
        let n = self.len();
        (n, Some(n))
    }
}
impl<'a> ExactSizeIterator for BadCursorB<'a> {
    fn len(&self) -> usize {
        self.entries.len() - self.pos
    }
}
pub fn fx_cursors(v: &[u32]) -> (GoodCursor<'_>, BadCursorA<'_>, BadCursorB<'_>) {
    (GoodCursor { entries: v, pos: 0, pos_back: v.len() }, BadCursorA { entries: v, pos: 0, pos_back: v.len() }, BadCursorB { entries: v, pos: 0 })
}

/// R-ORDERPANIC: a debug assertion and a plain assertion that depend on a comparison of priorities ...
pub fn fx_orderpanic<P: Ord>(a: &P, b: &P, v: &[P]) -> usize {
    debug_assert!(a <= b, "order violated");
    assert!(v.first().map_or(true, |x| x >= a));
    v.len()
}

/// ... and one that only looks at a length (must not match)
pub fn fx_orderpanic_ok<P: Ord>(v: &[P], i: usize) -> usize {
    debug_assert!(i < v.len());
    i
}
