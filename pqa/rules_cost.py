"""R-COST (C05): comparison-cost class of every public entry point, from the reachability of priority
comparison sites (parametricity: calls whose instantiated predicates contain Ord/PartialOrd on a type that
mentions a type parameter) and the shape of the natural loops they sit in."""
from .core import walk, strip, term_str, component, const_int
from .flowvp import FlowVP, canon
from .rules_decl import PQ, DPQ, QUEUES, QNAME
from .rules_order import short

ZERO, CONST, LOG, BULK, NLOGN, UNKNOWN = 0, 1, 2, 3, 4, 5
NAMES = {ZERO: "ZERO", CONST: "O(1)", LOG: "O(log n)", BULK: "O(n)", NLOGN: "O(n log n)", UNKNOWN: "unbounded/unknown"}

TREE_STEP = {"parent", "left", "right"}
SELECT = {"min_by_key", "max_by_key", "min_by", "max_by", "min", "max"}


def fixed_array_len(view, f, bb):
    """if the receiver of the selection at (f, bb) iterates a fixed-size array literal -> its length, else None"""
    t = f.term(bb)
    recv = view.vp.operand(f, t["args"][0])
    for x in walk(recv):
        if x[0] == "array":
            # no data-dependent source in between
            bad = [y for y in walk(recv) if y[0] == "call" and y[1].split("::")[-1] in ("chain", "flat_map", "cycle", "repeat", "take", "skip")]
            if not bad:
                return len(x[1])
        if x[0] == "adt" and ("Range" in x[1]):
            return None
    return None


LAZY_ADAPTORS = {"by_ref", "rev", "map", "filter", "filter_map", "take", "skip", "zip", "chain", "enumerate", "peekable", "into_iter", "iter",
                 "cloned", "copied", "take_while", "skip_while", "map_while", "inspect", "fuse", "step_by", "flat_map", "flatten", "scan",
                 "size_hint", "new", "from", "into", "drop", "drop_in_place", "forget", "as_mut", "as_ref", "deref", "deref_mut", "borrow",
                 "borrow_mut", "clone", "clone_from", "replace", "swap", "take", "fmt", "write", "read", "assume_init", "len", "is_empty",
                 "branch", "from_residual", "from_output", "unwrap", "expect", "ok", "some", "is_some", "is_none", "map_err", "and_then"}


class Cost:
    def __init__(self, view):
        self.view = view
        self.fx = view.fx
        self.prog = view.prog
        self.fvp = FlowVP(view)
        self.memo = {}
        self.detail = {}

    def tree_path_loop(self, f, lp):
        """a natural loop whose carried Position variable only moves along tree edges (parent / child / grandchild)"""
        r = self.fvp.reach(f)
        carried = []
        for l in sorted(r.multi):
            ty = f.local_ty(l)
            if ty.get("path") != "store::Position":
                continue
            defs_in = [(i, d) for i, d in enumerate(f.defs[l]) if d[1] in lp["body"]]
            if not defs_in:
                continue
            ok = True
            stepping = False
            for i, d in defs_in:
                t = self.fvp.def_term(f, d, ())
                calls = [x[1].split("::")[-1] for x in walk(t) if x[0] == "call"]
                allowed = TREE_STEP | SELECT | {"unwrap", "map_while", "iter", "get", "map", "get_index", "deref", "get_unchecked",
                                                "get_priority_from_position", "next", "into_iter"}
                # a new private helper returning a Position counts through what IT returns
                from .core import deep_ret
                for x in list(walk(t)):
                    if x[0] == "call" and x[1].split("::")[-1] not in allowed:
                        callee = self.prog.fn(x[1])
                        if callee is not None and not callee.exported and callee.key not in self.fx.known_functions() and not callee.cfg.loops:
                            inner = [y[1].split("::")[-1] for y in walk(deep_ret(self.view, callee)) if y[0] == "call"]
                            calls = [c2 for c2 in calls if c2 != x[1].split("::")[-1]] + inner
                if any(c not in allowed for c in calls):
                    ok = False
                if any(c in TREE_STEP for c in calls):
                    stepping = True
                else:
                    # copy of another Position variable that itself steps (largest = l with l = left(i))
                    if not calls:
                        stepping = stepping or True
            if ok and stepping:
                carried.append(l)
        # nested loops other than the loop itself
        nested = [l2 for l2 in f.cfg.loops if l2 is not lp and l2["body"] < lp["body"]]
        return bool(carried) and not nested, carried

    def site_cost(self, f, bb, stack):
        """comparison cost contributed by the call at (f, bb), ignoring enclosing loops"""
        ci = self.fx.call_info(f, bb)
        if ci.local_callee:
            return self.fn_cost(ci.local_callee, stack), "calls %s" % short(ci.local_callee)
        c = ZERO
        why = ""
        if ci.cmp:
            if ci.name in SELECT:
                n = fixed_array_len(self.view, f, bb)
                if n is None:
                    return BULK, "selection `%s` over a data-dependent sequence (line %d)" % (ci.name, ci.span["line"])
                c = max(c, CONST)
                why = "selection over a fixed array of %d (line %d)" % (n, ci.span["line"])
            elif ci.name in ("lt", "le", "gt", "ge", "cmp", "partial_cmp", "max", "min", "eq", "ne"):
                c = max(c, CONST)
                why = "comparison (line %d)" % ci.span["line"]
            else:
                return BULK, "external call `%s` compares priorities an unknown number of times (line %d)" % (ci.key, ci.span["line"])
        # a foreign generic function instantiated with one of the crate's own iterator types drives that iterator: `collect`,
        # `extend`, `fold`.. call its `next` / `next_back` once per element, the lazy adaptors not at all
        t = f.term(bb)
        itc, itwhy = self.driven_iterator_cost(t, stack)
        if itc > ZERO:
            nm = ci.name
            if nm in ("next", "next_back"):
                c = max(c, itc)
                why = why or itwhy
            elif nm not in LAZY_ADAPTORS:
                rep = BULK if itc <= CONST else (NLOGN if itc == LOG else UNKNOWN)
                return max(c, rep), "`%s` drives %s once per element (line %d)" % (ci.key, itwhy, ci.span["line"])
        for cl in ci.closures:
            if cl in self.prog.fns:
                cc = self.fn_cost(cl, stack)
                if cc > ZERO:
                    # closure invoked by an adaptor: bounded by the adaptor's sequence length
                    if ci.name in SELECT or ci.name in ("map", "and_then", "map_or", "map_while", "is_some_and", "filter", "unwrap_or_else"):
                        n = fixed_array_len(self.view, f, bb) if ci.name in SELECT else 1
                        if ci.name in SELECT and n is None:
                            return BULK, "closure with comparisons under a data-dependent selection"
                        c = max(c, cc)
                        why = why or "closure %s" % short(cl)
                    else:
                        return max(BULK, cc), "closure with comparisons passed to `%s`" % ci.key
        return c, why

    def driven_iterator_cost(self, t, stack):
        """largest cost of `next` / `next_back` of the crate iterator types a foreign call is instantiated with"""
        fu = t.get("func") or {}
        paths = set()

        def scan(ty):
            if not isinstance(ty, dict):
                return
            if ty.get("k") == "adt" and ty.get("krate") == self.prog.j.get("crate"):
                paths.add(ty.get("path"))
            for a in ty.get("args") or []:
                scan(a)
            for a in ty.get("elems") or []:
                scan(a)
            if ty.get("inner"):
                scan(ty["inner"])
        for g in fu.get("gargs") or []:
            scan(g)
        scan(fu.get("self_ty"))
        best, why = ZERO, ""
        for p in sorted(x for x in paths if x):
            for k in ("<%s as Iterator>::next" % p, "<%s as DoubleEndedIterator>::next_back" % p):
                if k in self.prog.fns and k not in stack:
                    c = self.fn_cost(k, stack)
                    if c > best:
                        best, why = c, "%s (%s)" % (short(k), NAMES[c])
        return best, why

    def fn_cost(self, key, stack=()):
        if key in self.memo:
            return self.memo[key]
        if key in stack:
            return UNKNOWN
        f = self.prog.fn(key)
        if f is None or not f.body:
            return ZERO
        stack = stack + (key,)
        cost = ZERO
        notes = []
        cfg = f.cfg
        for bb, t in f.calls():
            c, why = self.site_cost(f, bb, stack)
            if c == ZERO:
                continue
            loops = cfg.in_loop(bb)
            if not loops:
                cost = max(cost, c)
                notes.append("%s outside loops: %s" % (NAMES[c], why))
                continue
            lp = min(loops, key=lambda l: len(l["body"]))
            tree, carried = self.tree_path_loop(f, lp)
            if len(loops) > 1 and not tree:
                cost = max(cost, UNKNOWN)
                notes.append("nested loops around %s" % why)
            elif tree:
                if c <= CONST:
                    cost = max(cost, LOG)
                    notes.append("O(1) per level inside a tree-path loop (line %d): %s" % (f.term(lp["header"])["span"]["line"], why))
                else:
                    cost = max(cost, UNKNOWN)
                    notes.append("%s inside a tree-path loop: %s" % (NAMES[c], why))
            else:
                # iteration loop (data-dependent trip count)
                if c <= CONST:
                    cost = max(cost, BULK)
                    notes.append("O(1) comparisons per element in a linear loop: %s" % why)
                elif c == LOG:
                    # Floyd's construction: sift-DOWN from the last parent to the root is O(n) in total
                    if floyd_shape(self.view, f, lp, bb):
                        cost = max(cost, BULK)
                        notes.append("Floyd shape: sift-down over (0..=parent(len)).rev(): O(n) (asserted from the shape)")
                    else:
                        cost = max(cost, NLOGN)
                        notes.append("an O(log n) operation per element (line %d): %s" % (f.term(bb)["span"]["line"], why))
                else:
                    cost = max(cost, UNKNOWN)
                    notes.append("%s per element: %s" % (NAMES[c], why))
        # values of crate types with a destructor that go out of scope here (a guard struct): the destructor runs on the
        # normal path too, unless the drop is provably skipped - counted as a call of `<T as Drop>::drop`
        for bi in sorted(cfg.reach):
            t = f.term(bi)
            if t["k"] != "drop":
                continue
            dk = drop_impl_of(self.prog, t["place"].get("ty") or "")
            if dk is None or dk == key:
                continue
            c = self.fn_cost(dk, stack)
            if c == ZERO:
                continue
            if cfg.in_loop(bi) and c > ZERO:
                c = max(c, NLOGN) if c >= LOG else BULK
            cost = max(cost, c)
            notes.append("%s: destructor %s runs when the value goes out of scope (line %d)" % (NAMES[c], short(dk), t["span"]["line"]))
        self.memo[key] = cost
        self.detail[key] = notes
        return cost


def drop_impl_of(prog, ty):
    """key of `<T as Drop>::drop` for a place type string naming a crate type with a destructor, else None"""
    head = ty.split("<", 1)[0].strip().lstrip("&").replace("mut ", "").strip()
    if not head:
        return None
    for im in prog.impls:
        if im.get("trait") == "std::ops::Drop" and (im["self_desc"] == head or im["self_desc"].split("<")[0] == head):
            for it in im["items"]:
                if it["name"] == "drop":
                    return it["key"]
    return None


def floyd_shape(view, f, lp, bb):
    """the loop iterates (0..=parent(Position(len))).rev() and the call at bb is the sift-down `heapify(Position(i))`"""
    ci = view.fx.call_info(f, bb)
    if not (ci.local_callee or "").endswith("::heapify"):
        return False
    args = view.fx.args_vp(ci)
    s = term_str(args[1], 0) if len(args) > 1 else ""
    t = args[1]
    names = [x[1].split("::")[-1] for x in walk(t) if x[0] == "call"]
    return "rev" in names and "parent" in names and any(x[0] == "call" and x[1].endswith("RangeInclusive::new") and const_int(strip(x[2][0])) == 0 for x in walk(t))


EXPECT = {
    PQ: {
        ZERO: ["peek", "peek_mut", "len", "is_empty", "capacity", "get", "get_priority", "get_mut", "iter", "clear", "drain", "reserve",
               "shrink_to_fit", "into_vec", "into_sorted_iter", "with_capacity_and_hasher"],
        LOG: ["push", "pop", "pop_if", "change_priority", "change_priority_by", "push_increase", "push_decrease", "remove"],
        BULK: ["retain", "retain_mut", "append", "<From<Vec>>::from", "<FromIterator<(..)>>::from_iter", "<From<DoublePriorityQueue>>::from"],
    },
    DPQ: {
        ZERO: ["peek_min", "peek_min_mut", "len", "is_empty", "capacity", "get", "get_priority", "get_mut", "iter", "clear", "drain", "reserve",
               "shrink_to_fit", "into_vec", "into_sorted_iter", "with_capacity_and_hasher"],
        CONST: ["peek_max", "peek_max_mut"],
        LOG: ["push", "pop_min", "pop_max", "pop_min_if", "pop_max_if", "change_priority", "change_priority_by", "push_increase",
              "push_decrease", "remove"],
        BULK: ["retain", "retain_mut", "append", "<From<Vec>>::from", "<FromIterator<(..)>>::from_iter", "<From<PriorityQueue>>::from"],
    },
}
ITER_EXPECT = {
    "<priority_queue::iterators::IntoSortedIter as Iterator>::next": LOG,
    "<double_priority_queue::iterators::IntoSortedIter as Iterator>::next": LOG,
    "<double_priority_queue::iterators::IntoSortedIter as DoubleEndedIterator>::next_back": LOG,
    "<priority_queue::iterators::IterMut as Drop>::drop": BULK,
    "<double_priority_queue::iterators::IterMut as Drop>::drop": BULK,
    "<priority_queue::iterators::IterMut as Iterator>::next": ZERO,
    "<double_priority_queue::iterators::IterMut as Iterator>::next": ZERO,
    "<double_priority_queue::iterators::IterMut as DoubleEndedIterator>::next_back": ZERO,
}


def key_of(Q, name):
    if name.startswith("<"):
        return "<%s as %s" % (Q, name[1:])
    return "%s::%s" % (Q, name)


def r_cost(ctx, view):
    prog = view.prog
    ctx.cur = view
    co = Cost(view)
    n = 0
    for Q in QUEUES:
        dk = "<%s as Deserialize>::deserialize" % Q
        if prog.fn(dk) is not None:
            c = co.fn_cost(dk)
            n += 1
            ctx.ob("R-COST", "%s::<Deserialize>::deserialize" % QNAME[Q], c == BULK, prog.fn(dk).loc(),
                   "class %s expected (one rebuild after reading the sequence), analysis gives %s (%s)" % (NAMES[BULK], NAMES[c], "; ".join(co.detail.get(dk, [])[:3])))
        for cls, names in EXPECT[Q].items():
            for nm in names:
                k = key_of(Q, nm)
                f = prog.fn(k)
                ctx.anchor(k, f is not None)
                c = co.fn_cost(k)
                n += 1
                if cls == CONST:
                    ok = c == CONST
                    # at most ONE comparison: exactly one reachable comparison site, a selection over a 2-array
                    sites = cmp_sites(view, k)
                    # (one selection over a 2-array = one comparison; one binary comparison outside any loop = one comparison:
                    #  the class CONST above already excludes loops on the way)
                    one = len(sites) == 1 and sites[0][2] in (2, "binary")
                    ok = ok and one
                    why = "reachable comparison sites: %s" % [(short(s[0]), s[1], "array of %s" % s[2]) for s in sites]
                else:
                    ok = c <= cls if cls != BULK else c == BULK
                    if cls == ZERO:
                        ok = c == ZERO
                    why = "; ".join(co.detail.get(k, [])[:3]) or "no priority comparison reachable"
                ctx.ob("R-COST", "%s::%s" % (QNAME[Q], nm), ok, f.loc(),
                       "class %s expected, analysis gives %s (%s)" % (NAMES[cls] if cls != CONST else "ONE comparison", NAMES[c], why))
        # Extend: rebuild branch O(n) or push-each O(m log n); nothing worse
        k = "<%s as Extend<(..)>>::extend" % Q
        f = prog.fn(k)
        ctx.anchor(k, f is not None)
        c = co.fn_cost(k)
        n += 1
        ctx.ob("R-COST", "%s::extend" % QNAME[Q], c in (BULK, NLOGN), f.loc(), "Extend: %s (%s)" % (NAMES[c], "; ".join(co.detail.get(k, [])[:3])))
        # the strategy choice is made from (current length, promised lower bound) in that order, in both queues
        btr = [(bb, t) for bb, t in f.calls() if (view.fx.call_info(f, bb).local_callee or "").endswith("::better_to_rebuild")]
        okb = bool(btr)
        whyb = "%d call(s) of better_to_rebuild" % len(btr)
        for bb, t in btr:
            a = view.fx.args_vp(view.fx.call_info(f, bb))
            a0, a1 = strip(a[0]), strip(a[1])
            is_len = a0[0] == "call" and a0[1].split("::")[-1] == "len"
            is_hint = any(x[0] == "field" and x[2] in (0, "0") and x[1][0] == "call" and x[1][1].endswith("::size_hint") for x in walk(a1))
            if not (is_len and is_hint):
                okb = False
                whyb = "better_to_rebuild(%s, %s): expected (self.len(), size_hint().0)" % (term_str(a0)[:30], term_str(a1)[:30])
        n += 1
        ctx.ob("R-COST", "%s::extend:strategy-arguments" % QNAME[Q], okb, f.loc(), whyb)
        # heap_build itself: Floyd
        k = Q + "::heap_build"
        c = co.fn_cost(k)
        n += 1
        ctx.ob("R-COST", "%s::heap_build:floyd" % QNAME[Q], c == BULK and any("Floyd" in d for d in co.detail.get(k, [])), prog.fn(k).loc(),
               "heap_build: %s (%s)" % (NAMES[c], "; ".join(co.detail.get(k, [])[:2])))
        # the sift loops are tree-path loops
        for nm in (["heapify", "bubble_up"] if Q == PQ else ["heapify_min", "heapify_max", "bubble_up_min", "bubble_up_max"]):
            g = prog.fn("%s::%s" % (Q, nm))
            ctx.anchor("%s::%s" % (Q, nm), g is not None)
            lps = g.cfg.loops
            oks = [co.tree_path_loop(g, lp)[0] for lp in lps]
            n += 1
            ctx.ob("R-COST", "%s::%s:tree-path-loop" % (QNAME[Q], nm), bool(lps) and all(oks) and co.fn_cost(g.key) == LOG, g.loc(),
                   "%d loop(s), tree-path: %s, cost %s" % (len(lps), oks, NAMES[co.fn_cost(g.key)]))
    for k, cls in ITER_EXPECT.items():
        f = prog.fn(k)
        ctx.anchor(k, f is not None)
        c = co.fn_cost(k)
        n += 1
        ok = (c == cls) if cls in (ZERO, BULK) else (ZERO < c <= cls)
        ctx.ob("R-COST", short(k), ok, f.loc(), "class %s expected, analysis gives %s (%s)" % (NAMES[cls], NAMES[c], "; ".join(co.detail.get(k, [])[:2])))
    ctx.floor("R-COST", n, 70)


def cmp_sites(view, key):
    """reachable priority-comparison call sites from `key`: (fn, line, fixed array length or None)"""
    out = []
    for k in sorted(view.fx.reach(key)):
        g = view.prog.fn(k)
        for bb, t in g.calls():
            ci = view.fx.call_info(g, bb)
            if ci.cmp and not ci.local_callee:
                n = fixed_array_len(view, g, bb) if ci.name in SELECT else ("binary" if ci.name in ("lt", "le", "gt", "ge", "cmp", "partial_cmp", "max", "min") else None)
                out.append((k, t["span"]["line"], n))
    return out
