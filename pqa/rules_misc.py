"""R-HINT, R-STRAT (C07); R-STRICT (C11); R-ONCE / R-IFF (C08); R-SIDE (C06); R-SERDE (C15)."""
from .core import walk, strip, term_str, component, const_int, STORE
from .paths import explore, path_lines
from .rules_decl import PQ, DPQ, QUEUES, QNAME, root_fn, is_param, forwards, param_index
from .rules_iter import ret_term, method, impl_for
from .rules_order import contains, short, is_len_term

# ------------------------------------------------------------------------------------------
# R-HINT
# ------------------------------------------------------------------------------------------
ALLOC_SINKS = {"reserve", "reserve_exact", "try_reserve", "try_reserve_exact", "with_capacity", "with_capacity_and_hasher",
               "with_capacity_and_default_hasher", "with_capacity_in", "resize", "resize_with"}
SANITIZERS = {"min", "saturating_add", "saturating_mul", "saturating_sub", "checked_add", "checked_mul", "checked_sub",
              "wrapping_add", "wrapping_mul", "wrapping_sub", "clamp"}


TAINT_THROUGH = {"unwrap", "unwrap_or", "unwrap_or_default", "unwrap_or_else", "expect", "map_or", "map", "max", "into", "from",
                 "clone", "copied", "cloned", "try_into", "try_from", "add", "mul", "sub", "pow", "next_power_of_two",
                 "unwrap_unchecked", "and_then", "filter", "or", "or_else", "get_or_insert", "take", "replace"}


def hint_sources(t):
    """sub-terms of t that are the UPPER bound of an Iterator::size_hint"""
    out = []
    for x in walk(t):
        if x[0] == "field" and x[2] in (1, "1") and x[1][0] == "call" and x[1][1].endswith("::size_hint"):
            out.append(x)
    return out


def tainted(t, tparams=(), bound=1):
    """does term t carry an unsanitised size_hint bound (1 = upper, 0 = lower) or a tainted parameter?"""
    if bound == 0:
        return tainted_lo(t, tparams)
    if t[0] == "call" and t[1].split("::")[-1] in SANITIZERS:
        if t[1].split("::")[-1] in ("min", "clamp"):
            # min(tainted, untainted) is bounded by the untainted side
            return all(tainted(a, tparams) for a in t[2])
        return False
    if t[0] == "field" and t[2] in (1, "1") and t[1][0] == "call" and t[1][1].endswith("::size_hint"):
        return True
    if t[0] == "call" and t[1].endswith("::size_hint") and "Access" in t[1]:
        return True   # the Option itself (`seq.size_hint().unwrap_or(0)`)
    if t[0] == "some" and strip(t[1])[0] == "call" and strip(t[1])[1].endswith("::size_hint") and "Access" in strip(t[1])[1]:
        # serde: `SeqAccess::size_hint()` / `MapAccess::size_hint()` is what the INPUT announces (a length prefix): any number
        return True
    if t[0] == "param" and (t[1], t[2]) in tparams:
        return True
    if t[0] == "call" and t[1].split("::")[-1] not in TAINT_THROUGH:
        return False  # e.g. the result of a constructor is not numerically the hint
    for x in t[1:]:
        if isinstance(x, tuple):
            if x and isinstance(x[0], str):
                if tainted(x, tparams):
                    return True
            else:
                for y in x:
                    if isinstance(y, tuple) and y and isinstance(y[0], str) and tainted(y, tparams):
                        return True
    return False


def tainted_lo(t, tparams=()):
    """does t carry the LOWER bound of a size_hint numerically (through copies, casts and the crate's own parameters)?"""
    t = strip(t)
    if t[0] == "field" and t[2] in (0, "0") and strip(t[1])[0] == "call" and strip(t[1])[1].endswith("::size_hint"):
        return True
    if t[0] == "param" and (t[1], t[2]) in tparams:
        return True
    if t[0] in ("phi", "mu"):
        alts = t[4] if t[0] == "phi" else t[1]
        return any(isinstance(a, tuple) and a and a[0] != "rec" and tainted_lo(a, tparams) for a in alts)
    if t[0] == "cast":
        return tainted_lo(t[2], tparams)
    if t[0] == "field" and strip(t[1])[0] == "binop":
        return False   # a computed value is judged where it is computed
    return False


def hint_scan(view, bound=1):
    """-> (number of source sites, [(fn key, tainted-params?, [violations])])"""
    prog = view.prog
    vp = view.vp
    fx = view.fx
    src_fns = set()
    nsrc = 0
    for f in prog.fns.values():
        for bb, t in f.calls():
            if "func" in t and t["func"]["key"] == "std::iter::Iterator::size_hint" and (f.j.get("impl_trait") or "") != "std::iter::Iterator":
                src_fns.add(f.key)
                nsrc += 1
            elif "func" in t and t["func"]["key"] in ("serde::de::SeqAccess::size_hint", "serde::de::MapAccess::size_hint"):
                src_fns.add(f.key)
                nsrc += 1
    work = [(k, frozenset()) for k in sorted(src_fns)]
    done = set()
    out = []
    while work:
        key, tp = work.pop()
        if (key, tp) in done:
            continue
        done.add((key, tp))
        f = prog.fn(key)
        bad = []
        for bb, t in f.calls():
            ci = fx.call_info(f, bb)
            args = fx.args_vp(ci)
            targs = [i for i, a in enumerate(args) if tainted(a, tp, bound)]
            if not targs:
                continue
            if ci.name in ALLOC_SINKS and bound == 1:
                bad.append("upper bound of size_hint reaches the allocation request %s (arg %d) at line %d" % (ci.key, targs[0], t["span"]["line"]))
            elif ci.local_callee:
                callee = prog.fn(ci.local_callee)
                ntp = frozenset((callee.key, i + 1) for i in targs)
                work.append((callee.key, ntp))
        for bi, b in enumerate(f.blocks):
            if b["cleanup"]:
                continue
            for s in b["stmts"]:
                if s["k"] == "assign" and s["rv"]["k"] == "binop" and s["rv"]["op"].endswith("WithOverflow"):
                    v = vp.rvalue(f, s["rv"])
                    if bound == 1 and (tainted(v[2], tp) or tainted(v[3], tp)):
                        bad.append("upper bound of size_hint enters overflow-checked arithmetic (%s) at line %d" % (s["rv"]["op"], s["span"]["line"]))
                    if bound == 0 and s["rv"]["op"].startswith("Sub") and (tainted_lo(v[2], tp) or tainted_lo(v[3], tp)):
                        # every lower bound from 0 up to what is really yielded is legal: a subtraction with it on either side
                        # can underflow for some legal hint unless it is `saturating_sub` / guarded (checked arithmetic panics)
                        bad.append("lower bound of size_hint enters a panicking subtraction (%s) at line %d" % (s["rv"]["op"], s["span"]["line"]))
                if s["k"] == "assign" and s["rv"]["k"] == "binop" and s["rv"]["op"] in ("Div", "Rem") and bound == 0:
                    v = vp.rvalue(f, s["rv"])
                    if tainted_lo(v[3], tp):
                        bad.append("division by the lower bound of size_hint (0 is a legal lower bound) at line %d" % s["span"]["line"])
        out.append((key, bool(tp), bad))
    return nsrc, out


def r_hint(ctx, view):
    ctx.cur = view
    nsrc, res = hint_scan(view)
    ctx.floor("R-HINT:sources", nsrc, 3)
    for key, tp, bad in res:
        f = view.prog.fn(key)
        ctx.ob("R-HINT", "%s%s" % (short(key), ":tainted-params" if tp else ""), not bad, f.loc(),
               "; ".join(bad) if bad else "the upper bound of size_hint reaches no allocation request and no checked arithmetic")
    _, res0 = hint_scan(view, bound=0)
    for key, tp, bad in res0:
        f = view.prog.fn(key)
        ctx.ob("R-HINT", "%s:lower-bound%s" % (short(key), ":tainted-params" if tp else ""), not bad, f.loc(),
               "; ".join(bad) if bad else "the lower bound of size_hint enters no panicking subtraction or division")


# ------------------------------------------------------------------------------------------
# R-STRAT
# ------------------------------------------------------------------------------------------
def present_edge(view, f):
    """-> (switch bb, present_target, absent_target, key term) for the key-presence test of a bulk loop"""
    vp = view.vp
    for bi in sorted(f.cfg.reach):
        t = f.term(bi)
        if t["k"] != "switch":
            continue
        d = strip(vp.operand(f, t["discr"]))
        neg = False
        if d[0] == "unop" and d[1] == "Not":
            d = strip(d[2])
            neg = True
        if d[0] == "call" and d[1].endswith("::contains_key"):
            zero = [tb for v, tb in t["targets"] if v == 0][0]
            present, absent = (zero, t["otherwise"]) if neg else (t["otherwise"], zero)
            return bi, present, absent, d
        if d[0] == "discr" and len(f.cfg.succ[bi]) >= 2:
            # `match map.get_full_mut2(&item) { Some(..) => update, None => grow }` / `if let Some(p) = map.get_mut(&item)`
            from .core import edge_presence
            look = [x for x in walk(d) if x[0] == "call" and x[1].split("::")[-1] in KEYED_LOOKUPS and len(x[2]) == 2
                    and component(x[2][0]) and component(x[2][0])[0] == "map"]
            if look and f.cfg.in_loop(bi):
                pres = [nb for nb in f.cfg.succ[bi] if edge_presence(d, t, nb) == "present"]
                absn = [nb for nb in f.cfg.succ[bi] if edge_presence(d, t, nb) == "absent"]
                if len(pres) == 1 and len(absn) == 1:
                    return bi, pres[0], absn[0], look[0]
    return None


KEYED_LOOKUPS = ("get", "get_mut", "get_full", "get_full_mut", "get_full_mut2", "get_index_of", "get_key_value")


def occupied_effect(view, f, region):
    """writes to stored item / stored priority inside `region` (set of blocks) -> set of {'item','priority'}"""
    vp = view.vp
    eff = set()
    detail = []
    for bi in sorted(region):
        b = f.blocks[bi]
        for s in b["stmts"]:
            if s["k"] == "assign" and s["place"]["proj"] and s["place"]["proj"][0]["k"] == "deref":
                t = vp.place(f, s["place"])
                w = what_entry_part(t)
                if w:
                    eff.add(w)
                    detail.append("%s written at line %d" % (w, s["span"]["line"]))
        t = b["term"]
        if t["k"] == "call" and "func" in t and t["func"]["key"] in ("std::mem::replace", "std::mem::swap"):
            a0 = vp.operand(f, t["args"][0])
            w = what_entry_part(("deref", a0))
            if w:
                eff.add(w)
                detail.append("%s replaced at line %d" % (w, t["span"]["line"]))
    return eff, detail


def what_entry_part(t):
    """place term written through -> 'priority' | 'item' | None (through a reference into a map entry)"""
    if t[0] != "deref":
        return None
    x = strip(t[1])
    # unwrap()
    if x[0] == "field" and strip(x[1])[0] == "some" and strip(strip(x[1])[1])[0] == "call":
        x = ("field", ("call", "std::option::Option::unwrap", (strip(x[1])[1],), None), x[2], x[3] if len(x) > 3 else None)
    if x[0] == "field" and strip(x[1])[0] == "call":
        c = strip(x[1])
        inner = c
        if c[1].split("::")[-1] in ("unwrap", "expect", "unwrap_unchecked") and c[2] and strip(c[2][0])[0] == "call":
            inner = strip(c[2][0])
        nm = inner[1].split("::")[-1]
        if inner[2] and component(inner[2][0]) and component(inner[2][0])[0] == "map":
            if nm in ("get_full_mut2", "get_full_mut"):
                return {1: "item", 2: "priority"}.get(x[2])
            if nm in ("get_index_mut2", "get_index_mut"):
                return {0: "item", 1: "priority"}.get(x[2])
    if x[0] == "some":
        return what_entry_part(("deref", ("call", "std::option::Option::unwrap", (x[1],), None)))
    if x[0] == "call":
        c = x
        inner = c
        if c[1].split("::")[-1] in ("unwrap", "expect", "unwrap_unchecked") and c[2] and strip(c[2][0])[0] == "call":
            inner = strip(c[2][0])
        nm = inner[1].split("::")[-1]
        if nm == "get_mut" and inner[2]:
            a0 = inner[2][0]
            if (component(a0) and component(a0)[0] == "map") or "OccupiedEntry" in str(a0) or "Occupied" in term_str(a0):
                return "priority"
        if nm in ("get_mut", "into_mut") and "Entry" in inner[1]:
            return "priority"
    return None


def blocks_between(f, start, stops):
    """blocks reachable from `start` without passing through any block in `stops`"""
    seen = set()
    st = [start]
    while st:
        x = st.pop()
        if x in seen or x in stops:
            continue
        seen.add(x)
        st.extend(f.cfg.succ[x])
    return seen


STRAT_EXPECT = {
    "<store::Store as From<Vec>>::from": (set(), "From<Vec>: the first priority given for an item stays"),
    "<store::Store as FromIterator<(..)>>::from_iter": ({"priority", "item"}, "FromIterator: the last pair wins (documented: the item is updated too)"),
    "<store::Store as Extend<(..)>>::extend": ({"priority"}, "Extend (rebuild strategy): the last priority wins, the stored item stays - as push does"),
    "store::Store::append": (set(), "append: on a clash the receiver's entry stays"),
}


def r_strat(ctx, view):
    prog = view.prog
    vp = view.vp
    ctx.cur = view
    for key, (want, txt) in STRAT_EXPECT.items():
        f = prog.fn(key)
        ctx.anchor(key, f is not None)
        pe = present_edge(view, f)
        if pe is None:
            ctx.ob("R-STRAT", "%s:present-key-effect" % short(key), False, f.loc(), "no key-presence test found in the bulk loop")
            continue
        bi, present, absent, d = pe
        # region of the present branch: until the loop header / join with the absent branch
        # the key-present region: blocks dominated by the present-edge target
        present_region = {b for b in f.cfg.reach if f.cfg.dominates(present, b)} if len(f.cfg.pred[present]) == 1 else {present}
        eff, detail = occupied_effect(view, f, present_region)
        if "item" in want and "item" not in eff:
            want2 = want - {"item"}  # updating the item is permitted there, not required
        else:
            want2 = want
        ok = eff == want2 or eff == want
        ctx.ob("R-STRAT", "%s:present-key-effect" % short(key), ok, f.loc(),
               "%s; on the key-present path the code writes %s (%s)" % (txt, sorted(eff) or "nothing", "; ".join(detail) or "-"))
        # last wins => the written priority is the offered one
        if "priority" in want:
            okv = True
            for b2 in sorted(present_region):
                for s in f.blocks[b2]["stmts"]:
                    if s["k"] == "assign" and s["place"]["proj"] and what_entry_part(vp.place(f, s["place"])) == "priority":
                        v = strip(vp.rvalue(f, s["rv"]))
                        okv = okv and any(x[0] == "field" and x[2] in (1, "1") for x in walk(v)) and any(
                            x[0] == "call" and x[1].endswith("::next") for x in walk(v))
            ctx.ob("R-STRAT", "%s:written-priority-is-the-offered-one" % short(key), okv, f.loc(), "the value stored is the pair's priority")
    # push: occupied arm writes the priority only
    for Q in QUEUES:
        f = prog.fn(Q + "::push")
        ctx.anchor(Q + "::push", f is not None)
        eff, detail = occupied_effect(view, f, set(f.cfg.reach))
        ctx.ob("R-STRAT", "%s::push:present-key-effect" % QNAME[Q], eff == {"priority"}, f.loc(),
               "Extend (push-each strategy) = push: writes %s (%s)" % (sorted(eff), "; ".join(detail)))
        # the push-each branch of Extend really is `push(item, priority)` for every pair
        e = prog.fn("<%s as Extend<(..)>>::extend" % Q)
        ctx.anchor("Extend for " + Q, e is not None)
        calls = {(view.fx.call_info(e, bb).local_callee) for bb, _ in e.calls()}
        ok = (Q + "::push") in calls and "<store::Store as Extend<(..)>>::extend" in calls
        ctx.ob("R-STRAT", "%s::extend:two-strategies" % QNAME[Q], ok, e.loc(), "extend uses Store::extend+heap_build or push per pair (%s)" % sorted(c for c in calls if c))
    # append: strict swap guard and `other` emptied on every path
    f = prog.fn("store::Store::append")
    guard = None
    for bi in sorted(f.cfg.reach):
        t = f.term(bi)
        if t["k"] == "switch":
            d = strip(vp.operand(f, t["discr"]))
            if d[0] == "binop" and d[1] in ("Gt", "Lt", "Ge", "Le"):
                def size_owner(x):
                    # `s.size`, or `s.len()` (Store::len is the size field: R-READERS)
                    x = strip(x)
                    c = component(x)
                    if c and c[0] == "size":
                        return param_index(c[1])
                    if x[0] == "call" and x[1].endswith("Store::len") or (x[0] == "call" and x[1].split("::")[-1] == "len" and len(x) > 3 and x[2]
                                                                           and view.fx.call_info(prog.fn(x[3][0]), x[3][1]).local_callee == "store::Store::len"):
                        return param_index(x[2][0])
                    return None
                ra, rb = size_owner(d[2]), size_owner(d[3])
                if ra is not None and rb is not None:
                    guard = (d[1], ra, rb, bi, t)
    ok = False
    why = "no comparison of the two sizes found"
    if guard:
        op, ra, rb, bi, t = guard
        # normalise to other(2) REL self(1)
        if ra == 1 and rb == 2:
            op = {"Gt": "Lt", "Lt": "Gt", "Ge": "Le", "Le": "Ge"}[op]
        swap_blocks = [e["bb"] for e in view.fx.events(f) if e["kind"] == "tw" and e.get("comp") == "*"]
        if not swap_blocks:
            # field by field: all four components exchanged with the other store's (the automaton checks all-or-none)
            fs = [e for e in view.fx.events(f) if e["kind"] in ("tw", "mw") and (e.get("how") == "call:std::mem::swap")]
            if {e.get("comp") for e in fs} == {"map", "heap", "qp", "size"}:
                swap_blocks = [e["bb"] for e in fs]
        true_t = t["otherwise"]
        false_ts = [tb for _v, tb in t["targets"]]
        # the edge on which `other.size > self.size` holds, and the edge(s) on which it does not
        if op == "Le":
            op, yes_ts, no_ts = "Gt", false_ts, [true_t]
        else:
            yes_ts, no_ts = [true_t], false_ts

        def from_edge(tbs, sb):
            return any(sb == tb or sb in f.cfg.reachable_from(tb) for tb in tbs)
        ok = op == "Gt" and bool(swap_blocks) and all(from_edge(yes_ts, sb) for sb in swap_blocks)
        why = "stores are exchanged iff other.size %s self.size" % {"Gt": ">", "Ge": ">=", "Lt": "<", "Le": "<="}[op]
        # ... and ONLY then: no exchange is reachable once the comparison has said "not longer" (round 13: `a > b || other_fits`)
        if ok and any(from_edge(no_ts, sb) for sb in swap_blocks):
            ok = False
            why = "the stores can also be exchanged when other.size <= self.size (a second condition next to the size comparison)"
    ctx.ob("R-STRAT", "Store::append:swap-only-if-other-strictly-longer", ok, f.loc(),
           why + " (on a clash the receiver's priority stays unless the other queue was longer)")
    dr = [bb for bb, t in f.calls() if view.fx.call_info(f, bb).local_callee == "store::Store::drain" and
          param_index(view.fx.args_vp(view.fx.call_info(f, bb))[0]) == 2]
    esc = None
    okd = bool(dr)
    if dr:
        # allowed to return early only on `other.size == 0`
        stop = set()
        for bi in sorted(f.cfg.reach):
            t = f.term(bi)
            if t["k"] == "switch":
                d = strip(vp.operand(f, t["discr"]))
                if d[0] == "binop" and d[1] in ("Eq", "Ne") and component(d[2]) and component(d[2])[0] == "size" and param_index(component(d[2])[1]) == 2 and const_int(strip(d[3])) == 0:
                    zero_t = [tb for v, tb in t["targets"] if v == 0]
                    # the edge on which `other.size == 0` holds
                    stop.add((bi, t["otherwise"]) if d[1] == "Eq" else (bi, zero_t[0] if zero_t else t["otherwise"]))
                if d[0] == "call" and d[1].split("::")[-1] == "is_empty" and d[2] and param_index(d[2][0]) == 2:
                    stop.add((bi, t["otherwise"]))
        esc = f.cfg.escape_path(0, set(dr), stop_edges=stop)
        okd = esc is None
    ctx.ob("R-STRAT", "Store::append:other-left-empty", okd, f.loc(),
           "other.drain() on every path (early return only when other is already empty)" if okd else "path avoiding other.drain(): %s" % esc)
    # the queue-level append hands both stores to Store::append on every path (and does it once)
    for Q in QUEUES:
        q = prog.fn(Q + "::append")
        ctx.anchor(Q + "::append", q is not None)
        sites = []
        for bb, t in q.calls():
            ci = view.fx.call_info(q, bb)
            if ci.local_callee == "store::Store::append":
                a = view.fx.args_vp(ci)

                def store_of(x, pidx):
                    x = strip(x)
                    while x[0] in ("ref", "deref"):
                        x = strip(x[1])
                    if x[0] == "field" and x[2] == "store":
                        b = strip(x[1])
                        while b[0] in ("ref", "deref"):
                            b = strip(b[1])
                        return b[0] == "param" and b[2] == pidx
                    return False
                if len(a) == 2 and store_of(a[0], 1) and store_of(a[1], 2):
                    sites.append(bb)
        ok = len(sites) == 1 and not q.cfg.in_loop(sites[0]) and (sites[0] == 0 or q.cfg.escape_path(0, set(sites)) is None)
        ctx.ob("R-STRAT", "%s::append:delegates" % QNAME[Q], ok, q.loc(),
               "Store::append(self.store, other.store) on every path, once" if ok else
               "Store::append(self.store, other.store) is called at %d site(s) / not on every path" % len(sites))


    # the queue-level bulk constructors reach only Store-level strategies with THEIR duplicate policy: which strategy runs may
    # not depend on anything the caller cannot see (round 9: `from_iter` choosing `Store::from(vec)` for an inexact size hint)
    FIRST = {"<store::Store as From<Vec>>::from"}
    LAST = {"<store::Store as FromIterator<(..)>>::from_iter", "<store::Store as Extend<(..)>>::extend"}
    for Q in QUEUES:
        LASTQ = LAST | {Q + "::push", "<%s as Extend<(..)>>::extend" % Q}
        for key, want, wrong, txt in (
                ("<%s as FromIterator<(..)>>::from_iter" % Q, LASTQ, FIRST, "the last pair given for an item wins"),
                ("<%s as From<Vec>>::from" % Q, FIRST, LASTQ, "the first pair given for an item stays")):
            q = prog.fn(key)
            ctx.anchor(key, q is not None)
            r = view.fx.reach(key) - {key}
            bad = sorted(r & wrong)
            good = sorted(r & want)
            if not bad and not good:
                ctx.undecided.append("R-STRAT %s: reaches no Store-level bulk strategy; its duplicate policy is not decided here" % short(key))
                continue
            ctx.ob("R-STRAT", "%s:duplicate-policy" % short(key), not bad, q.loc(),
                   "%s: builds its store through %s" % (txt, [short(x) for x in good]) if not bad else
                   "%s, but the function can also build its store through %s, whose policy is the opposite one" % (txt, [short(x) for x in bad]))


# ------------------------------------------------------------------------------------------
# R-STRICT
# ------------------------------------------------------------------------------------------
def r_strict(ctx, view):
    """push_increase / push_decrease: one priority comparison; normalised for operand order and for which edge of it
    leads to `push`, it is strict and in the right direction; an absent item is pushed; the refusing edge is effect-free
    and returns Some(offered)."""
    prog = view.prog
    vp = view.vp
    fx = view.fx
    ctx.cur = view
    NEG = {"gt": "le", "ge": "lt", "lt": "ge", "le": "gt"}
    FLIPOP = {"gt": "lt", "lt": "gt", "ge": "le", "le": "ge"}
    SYM = {"gt": ">", "lt": "<", "ge": ">=", "le": "<="}
    for Q in QUEUES:
        for name, want in (("push_increase", "gt"), ("push_decrease", "lt")):
            f = prog.fn("%s::%s" % (Q, name))
            ctx.anchor("%s::%s" % (Q, name), f is not None)
            key = "%s::%s" % (QNAME[Q], name)
            cmps = []
            for g in prog.family(f.key):
                for bb, t in g.calls():
                    ci = fx.call_info(g, bb)
                    if ci.cmp or (ci.local_callee is None and ci.name in ("cmp", "partial_cmp", "max", "min", "ge", "le", "gt", "lt") and ci.mruc):
                        cmps.append((g, bb, ci))
            if len(cmps) != 1 or cmps[0][2].name not in ("gt", "lt", "ge", "le"):
                ctx.ob("R-STRICT", key + ":one-strict-comparison", False, f.loc(),
                       "expected exactly one priority comparison (<, <=, >, >=), found %s" % [c[2].key for c in cmps])
                continue
            g, cbb, ci = cmps[0]
            args = fx.args_vp(ci)
            op = ci.name
            a, b = strip(args[0]), strip(args[1])
            if is_stored(a) and is_offered(b, f):
                op = FLIPOP[op]
                a, b = b, a
            operands_ok = is_offered(a, f) and is_stored(b)
            # push sites: push(self, item, priority) whose result is returned
            push_bbs = []
            RET = return_locals(f)
            for bb2, _ in f.calls():
                c2 = fx.call_info(f, bb2)
                if c2.local_callee == Q + "::push":
                    pa = fx.args_vp(c2)
                    if is_param(pa[1], 2) and is_param(pa[2], 3) and f.term(bb2)["dest"]["local"] in RET and not f.term(bb2)["dest"]["proj"]:
                        push_bbs.append(bb2)

            def leads_to_push(tb):
                if not push_bbs:
                    return False
                if tb in push_bbs:
                    return True
                return any(p in f.cfg.reachable_from(tb) for p in push_bbs) and f.cfg.escape_path_from(tb, set(push_bbs)) is None

            def refuses(tb):
                region = blocks_between(f, tb, set(push_bbs))
                if any(p in region for p in push_bbs):
                    return False
                eff = set()
                for bb2 in region:
                    if f.term(bb2)["k"] == "call":
                        c2 = fx.call_info(f, bb2)
                        if c2.local_callee:
                            eff |= {e for e in fx.effects[c2.local_callee] if e in ("TW", "MW")}
                    for ev in fx.events(f):
                        if ev["bb"] == bb2 and ev["kind"] in ("tw", "mw"):
                            eff.add(ev["kind"])
                rv = None
                for bb2 in sorted(region):
                    for s in f.blocks[bb2]["stmts"]:
                        if s["k"] == "assign" and s["place"]["local"] in RET and not s["place"]["proj"] and not s.get("inlined_return"):
                            rv = vp.rvalue(f, s["rv"])
                return (not eff) and rv is not None and rv[0] == "adt" and rv[2] == "Some" and is_param(rv[3][0], 3)

            # controlling switch of the comparison: the switch (in the root body) whose discriminant depends on it
            if g is f:
                cmp_terms = [vp.call_term(f, cbb, f.term(cbb))]
            else:
                # the comparison sits in a closure handed to a combinator: the combinator call is what the root branches on
                cmp_terms = []
                use = vp.closure_use(g.key)
                if use is not None and use[0] is f:
                    cmp_terms = [vp.call_term(f, use[1], use[2])]
                    combinator = use[2]
            ctrl = None
            dterm = None
            for sb in sorted(f.cfg.reach):
                tt = f.term(sb)
                if tt["k"] != "switch" or len(f.cfg.succ[sb]) < 2:
                    continue
                d = vp.operand(f, tt["discr"])
                if any(contains(d, ct) for ct in cmp_terms):
                    ctrl, dterm = sb, d
                    break
            if ctrl is None:
                ctx.ob("R-STRICT", key + ":one-strict-comparison", False, g.loc(ci.span), "no branch is controlled by the comparison")
                continue

            def cmp_truth(d, edge_true):
                """truth value of the comparison on this edge of the controlling switch (None = not determined)"""
                d = strip(d)
                if d in cmp_terms or (d[0] == "call" and any(d[:3] == ct[:3] and d[3] == ct[3] for ct in cmp_terms)):
                    return edge_true
                if d[0] == "unop" and d[1] == "Not":
                    return cmp_truth(d[2], not edge_true)
                if d[0] in ("phi", "mu"):
                    alts = d[4] if d[0] == "phi" else d[1]
                    consts = [a for a in alts if strip(a)[0] == "const"]
                    others = [a for a in alts if strip(a)[0] != "const"]
                    cvals = {strip(a)[1].replace("const ", "") == "true" for a in consts}
                    if edge_true in cvals:
                        return None       # this edge can also be taken through the literal (the absent case)
                    res = {cmp_truth(a, edge_true) for a in others}
                    return res.pop() if len(res) == 1 else None
                return None

            tt = f.term(ctrl)
            zero = [tb for v, tb in tt["targets"] if v == 0][0]
            T, F = tt["otherwise"], zero
            tT, tF = cmp_truth(dterm, True), cmp_truth(dterm, False)
            if g is not f:
                # map_or(default, |p| cmp): the closure result IS the comparison; the default covers the absent item
                default = combinator["args"][1] if combinator["func"]["key"] == "std::option::Option::map_or" else None
                dval = None
                if default is not None and default["k"] == "const":
                    dval = {"const true": True, "true": True, "const false": False, "false": False}.get(default.get("s"))
                # polarity of the closure's result with respect to the comparison made inside it
                cterm = vp.call_term(g, cbb, g.term(cbb))

                def pol(x, same=True):
                    x = strip(x)
                    if x[0] == "call" and x[:3] == cterm[:3] and x[3] == cterm[3]:
                        return same
                    if x[0] == "unop" and x[1] == "Not":
                        return pol(x[2], not same)
                    if x[0] == "binop" and x[1] in ("Eq", "Ne"):
                        for u, w in ((x[2], x[3]), (x[3], x[2])):
                            w = strip(w)
                            while w[0] in ("ref", "deref"):
                                w = strip(w[1])
                            if w[0] == "const":
                                cv = w[1].replace("const ", "")
                                if cv in ("true", "false"):
                                    keep = (cv == "true") == (x[1] == "Eq")
                                    return pol(u, same if keep else not same)
                    return None
                cp = pol(vp.local(g, 0))
                if cp is None:
                    ctx.ob("R-STRICT", key + ":branches", False, g.loc(ci.span),
                           "the closure's result is not the comparison or its negation: %s" % term_str(vp.local(g, 0))[:80])
                    continue
                tT = None if dval is True else cp
                tF = None if dval is False else (not cp)
            eff_op = None
            if leads_to_push(T) and refuses(F) and tF is not None:
                eff_op = op if tF is False else NEG[op]
            elif leads_to_push(F) and refuses(T) and tT is not None:
                eff_op = NEG[op] if tT is True else op
            ctx.ob("R-STRICT", key + ":branches", eff_op is not None, f.loc(),
                   "one edge of the comparison returns push(item, priority), the other is effect-free and returns Some(priority)"
                   if eff_op else "the edges of the comparison are not {push(item, priority) returned | effect-free Some(priority)}")
            if eff_op is None:
                continue
            ok = eff_op == want and operands_ok
            ctx.ob("R-STRICT", key + ":one-strict-comparison", ok, g.loc(ci.span),
                   "the item is pushed iff `offered %s stored` (must be strictly `%s`); offered=%s stored=%s" % (
                       SYM[eff_op], SYM[want], term_str(a)[:30], term_str(b)[:50]))
            # the absent item is pushed: on every feasible path on which the lookup answered None, push is reached
            absent_ok, absent_why = absent_reaches_push(view, f, push_bbs)
            ctx.ob("R-STRICT", key + ":absent-item-is-pushed", absent_ok, f.loc(), absent_why)


def return_locals(f):
    """the return place and the locals whose value is (only) moved into it: `_0`, and `_n` with `_0 = move _n`
    (the result slot of an inlined helper)"""
    out = {0}
    changed = True
    while changed:
        changed = False
        for b in f.blocks:
            if b["cleanup"]:
                continue
            for s in b["stmts"]:
                if s["k"] == "assign" and s["place"]["local"] in out and not s["place"]["proj"] and s["rv"]["k"] == "use":
                    o = s["rv"]["op"]
                    if o["k"] in ("move", "copy") and not o["place"]["proj"] and o["place"]["local"] not in out:
                        out.add(o["place"]["local"])
                        changed = True
                    elif o["k"] in ("move", "copy") and [e["k"] for e in o["place"]["proj"]] == ["downcast", "field"] and o["place"]["local"] not in out:
                        # `result = (x as Some).0` with x = Some(y) built just before (an expanded `.then(..).flatten()`)
                        x = o["place"]["local"]
                        for b2 in f.blocks:
                            for s2 in b2["stmts"]:
                                if s2["k"] == "assign" and s2["place"]["local"] == x and not s2["place"]["proj"] and s2["rv"]["k"] == "aggregate" \
                                        and s2["rv"].get("variant") == "Some" and s2["rv"]["ops"] and s2["rv"]["ops"][0]["k"] in ("move", "copy") \
                                        and not s2["rv"]["ops"][0]["place"]["proj"]:
                                    y = s2["rv"]["ops"][0]["place"]["local"]
                                    if y not in out:
                                        out.add(y)
                                        changed = True
    return out


def absent_reaches_push(view, f, push_bbs):
    """typestate over feasible paths: after the None edge of the keyed lookup (or through `map_or(true, ..)`), push is reached"""
    from .core import edge_presence
    vp = view.vp
    absent_targets = set()
    for sb in sorted(f.cfg.reach):
        tt = f.term(sb)
        if tt["k"] != "switch":
            continue
        d = strip(vp.operand(f, tt["discr"]))
        if d[0] == "discr" and any(x[0] == "call" and x[1].split("::")[-1] in ("get_priority", "get", "get_full", "get_mut") for x in walk(d)):
            for nb in f.cfg.succ[sb]:
                if edge_presence(d, tt, nb) == "absent":
                    absent_targets.add(nb)
    if absent_targets:
        marks = {}
        for b in absent_targets:
            marks.setdefault(b, []).append("A")
        for b in push_bbs:
            marks.setdefault(b, []).append("P")

        def step(st, tag, bb):
            if tag == "A" and st == 0:
                return 1
            if tag == "P" and st == 1:
                return 2
            return st
        bad = explore(f, marks, 0, step, lambda st: st == 1)
        return (not bad), ("the None arm of the lookup %s push on every feasible path" % ("reaches" if not bad else "does not reach"))
    # combinator form
    for bb, t in f.calls():
        if "func" in t and t["func"]["key"] == "std::option::Option::map_or":
            default = t["args"][1]
            if default["k"] == "const" and default.get("s") in ("const true", "true"):
                for sb in sorted(f.cfg.reach):
                    tt = f.term(sb)
                    if tt["k"] == "switch":
                        d = vp.operand(f, tt["discr"])
                        if d[0] == "call" and d[3] == (f.key, bb):
                            tgt = tt["otherwise"]
                            ok = bool(push_bbs) and (tgt in push_bbs or f.cfg.escape_path_from(tgt, set(push_bbs)) is None)
                            return ok, "map_or(true, cmp): the absent item %s push" % ("reaches" if ok else "does not reach")
    return False, "no path for the absent item found"


def is_offered(t, f):
    t = strip(t)
    return t[0] == "param" and ((t[1] == f.key and t[2] == 3) or t[3] == "priority")


def is_stored(t):
    """the priority looked up for the `item` parameter"""
    t = strip(t)
    if t[0] == "some":
        c = strip(t[1])
        return c[0] == "call" and c[1].split("::")[-1] in ("get_priority", "get") and len(c[2]) == 2 and is_param(c[2][1], 2)
    return False


# ------------------------------------------------------------------------------------------
# R-ONCE / R-IFF
# ------------------------------------------------------------------------------------------
def user_closure_calls(view, f, pidx):
    """call sites in f (and closures capturing it) that invoke the closure parameter pidx of f"""
    out = []
    for g in view.prog.family(f.key):
        for bb, t in g.calls():
            if "func" in t and (t["func"].get("trait") or "").startswith("std::ops::Fn") and t["args"]:
                a0 = strip(view.vp.operand(g, t["args"][0]))
                if a0[0] == "param" and a0[1] == f.key and a0[2] == pidx:
                    out.append((g, bb, t))
    return out


def passes_param(view, f, pidx):
    """call sites that pass parameter pidx of f on as an argument -> [(bb, callee, argpos)]"""
    out = []
    for bb, t in f.calls():
        for i, a in enumerate(t["args"]):
            x = view.vp.operand(f, a)
            if x[0] == "param" and x[1] == f.key and x[2] == pidx:
                ci = view.fx.call_info(f, bb)
                out.append((bb, ci.local_callee or ci.key, i))
    return out


def is_slot_range_var(t):
    """the loop variable of `for i in 0..map.len()`: every slot number of the map, once, in order"""
    t = strip(t)
    while t[0] in ("some", "ref", "deref"):
        t = strip(t[1])
    if not (t[0] == "call" and t[1].split("::")[-1] == "next" and t[2]):
        return False
    y = strip(t[2][0])
    # the range itself, taken as it is: no `rev()`, `skip()`, `step_by()`, `take()` .. in between (another order, or not every slot)
    while y[0] in ("ref", "deref") or (y[0] == "call" and y[1].split("::")[-1] == "into_iter" and len(y[2]) == 1):
        y = strip(y[1] if y[0] in ("ref", "deref") else y[2][0])
    if y[0] == "adt" and y[1].split("::")[-1] == "Range" and len(y[3]) == 2 and const_int(strip(y[3][0])) == 0:
        hi = strip(y[3][1])
        if hi[0] == "call" and hi[1].split("::")[-1] == "len" and hi[2] and component(hi[2][0]) and component(hi[2][0])[0] == "map":
            return True
    return False


def slot_scan_ok(view, f, bb, t):
    """the predicate is invoked at (f, bb) once per slot of the map, before any structural change: the call sits in a loop
    over `0..map.len()`, on every path through the loop body, its arguments are the two halves of `map.get_index_mut2(i)`
    for the loop variable i, the verdict is pushed onto a vector exactly once per iteration, and that vector - in order - is
    what the closure handed to `retain2` answers with (which runs no user code of its own).  -> (ok, why)"""
    vp, fx, prog = view.vp, view.fx, view.prog
    lp = f.cfg.in_loop(bb)
    if not lp or len(lp) != 1:
        return False, "the predicate is not invoked inside exactly one loop"
    loop = lp[0]
    a = vp.operand(f, t["args"][1])
    lookups = [x for x in walk(a) if x[0] == "call" and x[1].split("::")[-1] == "get_index_mut2" and len(x[2]) == 2
               and component(x[2][0]) and component(x[2][0])[0] == "map"]
    if not lookups or not all(is_slot_range_var(x[2][1]) for x in lookups):
        return False, "the predicate's arguments are not the entry at slot i of a loop over 0..map.len()"
    # every iteration invokes it and records the verdict
    pushes = [b2 for b2, t2 in f.calls() if "func" in t2 and t2["func"]["key"] == "std::vec::Vec::push" and b2 in loop["body"]]
    site = vp.call_term(f, bb, t)
    # the verdict itself (not its negation, not a combination)
    def is_site(x):
        x = strip(x)
        return x[0] == "call" and len(x) > 3 and x[3] == site[3]
    pushes = [b2 for b2 in pushes if is_site(vp.operand(f, f.term(b2)["args"][1]))]
    if len(pushes) != 1:
        return False, "the verdict is not pushed exactly once per iteration (%d pushes of it)" % len(pushes)
    for (tail, head) in loop["backedges"]:
        pass
    hdr = loop["header"]
    for must in (bb, pushes[0]):
        for (tail, head) in loop["backedges"]:
            # a path from the loop header back to itself avoiding `must`
            if f.cfg.escape_path(hdr, {must}, targets={tail}) is not None and must != tail:
                return False, "an iteration can skip the predicate / the recording of its verdict"
    # structural map writes only after the loop; the retain2 closure answers from the recorded verdicts
    keepvec = strip(vp.operand(f, f.term(pushes[0])["args"][0]))
    rets = [(g, b2, t2) for g in prog.family(f.key) for b2, t2 in g.calls() if "func" in t2 and t2["func"]["name"] == "retain2"]
    if len(rets) != 1 or rets[0][0] is not f or f.cfg.in_loop(rets[0][1]):
        return False, "retain2 is not called exactly once, after the scan"
    ci = fx.call_info(f, rets[0][1])
    cls = [c for c in ci.closures if prog.fn(c) is not None and prog.fn(c).is_closure]
    if len(cls) != 1:
        return False, "retain2 is not handed exactly one crate closure"
    cl = prog.fn(cls[0])
    if "MRUC" in fx.effects.get(cl.key, ()):
        return False, "the closure handed to retain2 runs user code"
    r = strip(ret_term(view, cl))
    names = [x[1].split("::")[-1] for x in walk(r) if x[0] == "call"]
    # (captured variables are resolved to where they were made: `keep.into_iter()` of the vector `Vec::with_capacity(map.len())`)
    if not ("next" in names and len([n for n in names if n in ("unwrap_or", "unwrap", "expect")]) == 1 and
            set(names) <= {"next", "unwrap_or", "unwrap", "expect", "into_iter", "with_capacity", "new", "len"}):
        return False, "the closure handed to retain2 does not answer with exactly the next recorded verdict (%s)" % term_str(r)[:60]
    # .. of the recorded vector taken front to back: between `keep.push(..)` and the replay nothing but `into_iter()` touches it
    def root_local(o):
        # the variable an operand denotes, through the `&mut v` temporaries made for method calls
        for _ in range(6):
            if o.get("k") not in ("copy", "move") or [e for e in o["place"]["proj"] if e["k"] != "deref"]:
                return None
            L = o["place"]["local"]
            ds = f.defs.get(L, [])
            if len(ds) == 1 and ds[0][0] == "stmt" and ds[0][3]["rv"]["k"] == "ref" and not ds[0][3]["rv"]["place"]["proj"]:
                o = {"k": "copy", "place": ds[0][3]["rv"]["place"]}
                continue
            if len(ds) == 1 and ds[0][0] == "stmt" and ds[0][3]["rv"]["k"] == "use" and ds[0][3]["rv"]["op"].get("k") in ("copy", "move") \
                    and not f.locals[L]["name"]:
                o = ds[0][3]["rv"]["op"]
                continue
            return L
        return None
    KV = root_local(f.term(pushes[0])["args"][0])
    other = []
    for b2, t2 in f.calls():
        if b2 in (pushes[0], rets[0][1]) or "func" not in t2 or KV is None:
            continue
        nm = t2["func"]["name"]
        if any(root_local(a2) == KV for a2 in t2["args"]) and nm not in ("into_iter", "with_capacity", "new", "reserve", "len", "drop"):
            other.append(nm)
    if other:
        return False, "the recorded verdicts are reordered / filtered before they are replayed (%s)" % sorted(set(other))
    return True, "invoked once per slot in a scan over 0..map.len(); retain2 replays the recorded verdicts in order"


def contains_term(t, site):
    for x in walk(t):
        if x[0] == "call" and len(x) > 3 and x[3] == site[3]:
            return True
    return False


def pred_chain(view, f, pidx, depth=0, invoke_ok=()):
    """where does the closure parameter pidx of f end up?  -> (terminals [(fn key, bb, callee key)], problems [str], hops [str])
    a hop is: handing the parameter on as an argument (crate callee: followed; external callee: terminal), or capturing it
    in an adapter closure that invokes it exactly once on every path, outside loops, and returns its verdict unchanged -
    the adapter then is the predicate and is followed to where it is handed"""
    prog, vp, fx = view.prog, view.vp, view.fx
    terms, probs, hops = [], [], []
    if depth > 6:
        return terms, ["chain too deep"], hops

    def is_p(x):
        x = strip(x)
        while x[0] in ("ref", "deref"):
            x = strip(x[1])
        return x[0] == "param" and x[1] == f.key and x[2] == pidx

    def follow(owner, bb, t, argpos, what):
        ci = fx.call_info(owner, bb)
        if owner.cfg.in_loop(bb):
            probs.append("%s is handed on inside a loop of %s" % (what, short(owner.key)))
        if bb != 0 and owner.cfg.escape_path(0, {bb}) is not None:
            probs.append("a path through %s does not hand %s on" % (short(owner.key), what))
        if ci.local_callee:
            hops.append(short(ci.local_callee))
            t2, p2, h2 = pred_chain(view, prog.fn(ci.local_callee), argpos + 1, depth + 1, invoke_ok)
            terms.extend(t2)
            probs.extend(p2)
            hops.extend(h2)
        else:
            hops.append(ci.key.split("::")[-1])
            terms.append((owner.key, bb, ci.key))

    fam = prog.family(f.key)
    for g in fam:
        for bb, t in g.calls():
            # invoked ?
            if "func" in t and (t["func"].get("trait") or "").startswith("std::ops::Fn") and t["args"] and is_p(vp.operand(g, t["args"][0])):
                if g is f or f.key in invoke_ok:
                    if f.key in invoke_ok:
                        hops.append("invoked in %s" % short(f.key))
                        terms.append((f.key, bb, "invoke:" + f.key))
                        if g.cfg.in_loop(bb):
                            probs.append("invoked inside a loop of %s" % short(g.key))
                    else:
                        oks, whys = slot_scan_ok(view, f, bb, t)
                        if oks:
                            hops.append("scan in %s" % short(f.key))
                            terms.append((f.key, bb, "scan:each-slot-once"))
                        else:
                            probs.append("%s invokes the predicate itself (%s)" % (short(f.key), whys))
                    continue
                # adapter closure
                calls = [(b2, t2) for b2, t2 in g.calls() if "func" in t2 and (t2["func"].get("trait") or "").startswith("std::ops::Fn")
                         and t2["args"] and is_p(vp.operand(g, t2["args"][0]))]
                r = strip(ret_term(view, g))
                once = len(calls) == 1 and not g.cfg.loops and (calls[0][0] == 0 or g.cfg.escape_path(0, {calls[0][0]}) is None)
                same = r[0] == "call" and r[1].startswith("std::ops::Fn") and len(r) > 3 and r[3] == (g.key, calls[0][0])
                if not once:
                    probs.append("the adapter closure calls the predicate %d times / not on every path" % len(calls))
                if not same:
                    probs.append("the adapter closure alters the verdict (%s)" % term_str(r)[:50])
                use = vp.closure_use(g.key)
                if use is None:
                    probs.append("the adapter closure is not handed to a call")
                    continue
                pf, ubb, ut, argpos = use
                if (g.key, "adapter") in [(h, "adapter") for h in hops]:
                    continue
                hops.append("adapter closure")
                follow(pf, ubb, ut, argpos, "the adapter closure")
                continue
            # handed on as an argument ?
            for i, a in enumerate(t["args"]):
                if i == 0 and "func" in t and (t["func"].get("trait") or "").startswith("std::ops::Fn"):
                    continue
                if is_p(vp.operand(g, a)):
                    follow(g, bb, t, i, "the predicate")
    return terms, probs, hops


def r_once(ctx, view):
    prog = view.prog
    vp = view.vp
    fx = view.fx
    ctx.cur = view
    # swap_remove_if: predicate called exactly once on every path, outside loops, with the entry at heap[position]
    f = prog.fn("store::Store::swap_remove_if")
    ctx.anchor("Store::swap_remove_if", f is not None)
    calls = user_closure_calls(view, f, 3)
    ok = len(calls) == 1 and calls[0][0] is f and not f.cfg.in_loop(calls[0][1])
    why = "%d call site(s) of the predicate" % len(calls)
    if ok:
        g, bb, t = calls[0]
        esc = f.cfg.escape_path(0, {bb})
        ok = esc is None
        why = "predicate invoked exactly once on every path" if ok else "a path avoids the predicate: %s" % esc
        # its arguments are the two halves of the entry at heap[position.0]
        a = vp.operand(f, t["args"][1])
        good = False
        for x in walk(a):
            if x[0] == "call" and x[1].split("::")[-1] in ("get_index_mut2",) and len(x[2]) == 2:
                idx = strip(x[2][1])
                if idx[0] == "field":
                    h = strip(idx[1])
                    while h[0] in ("some", "deref", "ref") or (h[0] == "call" and h[1].split("::")[-1] in ("unwrap", "expect", "unwrap_unchecked") and h[2]):
                        h = strip(h[1] if h[0] != "call" else h[2][0])
                    p = None
                    # unchecked, checked (`heap[position.0]`) or optional (`heap.get(position.0)`) read of the heap slot: the same slot
                    if h[0] == "call" and h[1].split("::")[-1] in ("get_unchecked", "get", "index") and component(h[2][0]) and component(h[2][0])[0] == "heap":
                        p = strip(h[2][1])
                    elif h[0] == "index" and component(h[1]) and component(h[1])[0] == "heap":
                        p = strip(h[2])
                    if p is not None:
                        good = p[0] == "field" and is_param(p[1], 2)
        ctx.ob("R-ONCE", "Store::swap_remove_if:predicate-sees-entry-at-position", good, f.loc(), "predicate receives map[heap[position]]")
    ctx.ob("R-ONCE", "Store::swap_remove_if:predicate-once", ok, f.loc(), why)
    # R-IFF: true edge removes that position and returns the result, false edge is effect-free and returns None
    if calls:
        g, bb, t = calls[0]
        pterm = vp.call_term(g, bb, t)
        # the branch on the predicate's answer, however it is spelled (`if f(..)`, `let keep = f(..); if !keep { return None }`)
        sw = None
        for bi in sorted(f.cfg.reach):
            tsw = f.term(bi)
            if tsw["k"] != "switch" or len(f.cfg.succ[bi]) < 2:
                continue
            d = strip(vp.operand(f, tsw["discr"]))
            neg = False
            while d[0] == "unop" and d[1] == "Not":
                d = strip(d[2])
                neg = not neg
            if d[0] == "call" and d[:3] == pterm[:3] and d[3] == pterm[3]:
                sw = (bi, neg)
                break
        okk, whyk = False, "no branch on the predicate's result"
        if sw:
            tsw = f.term(sw[0])
            zero = [tb for v, tb in tsw["targets"] if v == 0][0]
            tt = tsw["otherwise"]
            if sw[1]:
                zero, tt = tt, zero   # the branch tests the negation
            RET = return_locals(f)
            rem = [bb2 for bb2, _ in f.calls() if fx.call_info(f, bb2).local_callee == "store::Store::swap_remove"
                   and is_param(fx.args_vp(fx.call_info(f, bb2))[1], 2)]
            ok_true = bool(rem) and f.cfg.escape_path(sw[0], set(rem), stop_edges={(sw[0], zero)}) is None and all(
                f.term(r)["dest"]["local"] in RET and not f.term(r)["dest"]["proj"] for r in rem)
            fside = blocks_between(f, zero, set())
            eff = [e for e in fx.events(f) if e["bb"] in fside and (e["kind"] in ("tw", "mw") or (e["kind"] == "call" and fx.effects[e["callee"]] & {"TW", "MW"}))]
            from .rules_order import returns_none
            ok_false = not eff and returns_none(view, f, zero)
            okk = ok_true and ok_false
            whyk = "accepted => swap_remove(position) returned: %s; refused => no write, None: %s" % (ok_true, ok_false)
        ctx.ob("R-IFF", "Store::swap_remove_if:remove-iff-accepted", okk, f.loc(), whyk)
    # retain / retain_mut: from the queue's parameter the predicate reaches IndexMap::retain2 exactly once, through
    # plain forwarding or through adapter closures that call it once and return its verdict unchanged - whatever the
    # number of intermediate functions (Store::retain may or may not exist)
    for Q in QUEUES:
        for nm in ("retain", "retain_mut"):
            q = prog.fn("%s::%s" % (Q, nm))
            ctx.anchor("%s::%s" % (Q, nm), q is not None)
            terms, probs, hops = pred_chain(view, q, 2)
            ok = not probs and len(terms) == 1 and (terms[0][2].endswith("retain2") or terms[0][2] == "scan:each-slot-once")
            ctx.ob("R-ONCE", "%s::%s:predicate-chain" % (QNAME[Q], nm), ok, q.loc(),
                   ("the predicate reaches, every hop on every path and outside loops, the one place that applies it once per element - "
                    "IndexMap::retain2, or a scan over every slot whose verdicts retain2 replays (%s)" % " -> ".join(hops)) if ok else
                   "predicate chain: terminals %s; problems: %s" % ([(short(t[0]), t[2].split("::")[-1]) for t in terms], "; ".join(probs) or "-"))
    # change_priority_by: the priority setter is run only by the Store primitive (which R-ASSIGN shows runs it exactly once, on the
    # found entry): no queue-level code applies it to anything
    for Q in QUEUES:
        q = prog.fn("%s::change_priority_by" % Q)
        ctx.anchor("%s::change_priority_by" % Q, q is not None)
        terms, probs, hops = pred_chain(view, q, 3, invoke_ok=("store::Store::change_priority_by",))
        ok = not probs and len(terms) == 1 and terms[0][2] == "invoke:store::Store::change_priority_by"
        ctx.ob("R-ONCE", "%s::change_priority_by:setter-chain" % QNAME[Q], ok, q.loc(),
               ("the setter reaches Store::change_priority_by only (%s)" % " -> ".join(hops)) if ok else
               "setter chain: ends %s; problems: %s" % ([(short(t[0]), t[2].split("::")[-1]) for t in terms], "; ".join(probs) or "-"))
    # queue level: predicate parameters are only forwarded, unmodified, to the store primitive
    table = {PQ: (("pop_if", "store::Store::swap_remove_if", 2),),
             DPQ: (("pop_min_if", "store::Store::swap_remove_if", 2), ("pop_max_if", "store::Store::swap_remove_if", 2))}
    for Q in QUEUES:
        for (nm, callee, pidx) in table[Q]:
            q = prog.fn("%s::%s" % (Q, nm))
            ctx.anchor("%s::%s" % (Q, nm), q is not None)
            direct = user_closure_calls(view, q, pidx)
            uses = []
            for g in prog.family(q.key):
                for bb, t in g.calls():
                    for i, a in enumerate(t["args"]):
                        x = strip(vp.operand(g, a))
                        if x[0] == "param" and x[1] == q.key and x[2] == pidx:
                            ci = fx.call_info(g, bb)
                            uses.append((ci.local_callee or ci.key, g.key, bb))
            ok = not direct and bool(uses) and all(u[0] == callee for u in uses)
            # not inside a crate loop, and each feasible path passes at most one such call
            for (_, gk, bb) in uses:
                if prog.fn(gk).cfg.in_loop(bb):
                    ok = False
            ctx.ob("R-ONCE", "%s::%s:predicate-only-forwarded" % (QNAME[Q], nm), ok, q.loc(),
                   "the user predicate is only handed to %s (uses: %s, direct invocations: %d)" % (callee.split("::")[-1], [u[0] for u in uses], len(direct)))


# ------------------------------------------------------------------------------------------
# R-SIDE
# ------------------------------------------------------------------------------------------
def r_side(ctx, view):
    prog = view.prog
    vp = view.vp
    fx = view.fx
    ctx.cur = view

    def fwd(fkey, callee, label):
        f = prog.fn(fkey)
        ctx.anchor(fkey, f is not None)
        ok, why = forwards(view, f, callee, arg_params=[], recv_field=tuple(prog.carrier_fields - {"store"}))
        ctx.ob("R-SIDE", label, ok, f.loc(), why)

    fwd("<priority_queue::iterators::IntoSortedIter as Iterator>::next", PQ + "::pop", "PriorityQueue::IntoSortedIter::next=pop")
    fwd("<double_priority_queue::iterators::IntoSortedIter as Iterator>::next", DPQ + "::pop_min", "DoublePriorityQueue::IntoSortedIter::next=pop_min")
    fwd("<double_priority_queue::iterators::IntoSortedIter as DoubleEndedIterator>::next_back", DPQ + "::pop_max", "DoublePriorityQueue::IntoSortedIter::next_back=pop_max")
    # what the sorted iterator reports as its length is the queue's length - whichever of len() / size_hint() is written
    # through the other
    from .rules_iter import count_term
    T_ = "double_priority_queue::iterators::IntoSortedIter"
    ln = prog.fn("<%s as ExactSizeIterator>::len" % T_)
    sh = prog.fn("<%s as Iterator>::size_hint" % T_)
    ctx.anchor("<%s as ExactSizeIterator>::len" % T_, ln is not None)
    ct = count_term(view, T_, sh, ln, ret_term(view, ln))
    carriers = prog.carrier_fields - {"store"}
    okl = ct[0] == "call" and ct[1] == "len" and len(ct[2]) == 1 and strip(ct[2][0])[0] == "field" and strip(ct[2][0])[2] in carriers \
        and strip(strip(ct[2][0])[1])[0] == "param"
    if okl:
        # and that `len` is the queue's: no other crate function named len is reachable from it
        lens = {k for k in fx.reach(ln.key) if k.split("::")[-1] == "len" and k != ln.key and "IntoSortedIter" not in k}
        okl = lens <= {DPQ + "::len", "store::Store::len"} and (DPQ + "::len") in lens
    ctx.ob("R-SIDE", "DoublePriorityQueue::IntoSortedIter::len=queue-len", okl, ln.loc(), "len() = %s" % term_str(ct)[:80])
    for (fkey, callee) in ((PQ + "::into_sorted_vec", PQ + "::pop"), (DPQ + "::into_ascending_sorted_vec", DPQ + "::pop_min"),
                           (DPQ + "::into_descending_sorted_vec", DPQ + "::pop_max")):
        f = prog.fn(fkey)
        ctx.anchor(fkey, f is not None)
        # the popper: the pop itself, or one step of the crate's sorted iterator over `self` (whose next / next_back is that
        # pop: the three `fwd` obligations above) - directly or through `&mut I` / `by_ref()`
        itm = {PQ + "::pop": ("<priority_queue::iterators::IntoSortedIter as Iterator>::next", "next"),
               DPQ + "::pop_min": ("<double_priority_queue::iterators::IntoSortedIter as Iterator>::next", "next"),
               DPQ + "::pop_max": ("<double_priority_queue::iterators::IntoSortedIter as DoubleEndedIterator>::next_back", "next_back")}[callee]
        pops = []
        for bb, _ in f.calls():
            ci = fx.call_info(f, bb)
            if ci.local_callee == callee or ci.local_callee == itm[0]:
                pops.append(bb)
            elif ci.local_callee is None and ci.name == itm[1]:
                cbs = set(ci.closures or []) | set(fx.callbacks(f, bb) or [])
                if itm[0] in cbs and not any(k.endswith("::next") or k.endswith("::next_back") for k in cbs - {itm[0]}):
                    pops.append(bb)
        others = [fx.call_info(f, bb).local_callee for bb, _ in f.calls() if fx.call_info(f, bb).local_callee and fx.call_info(f, bb).local_callee != callee
                  and fx.call_info(f, bb).local_callee.split("::")[-1].startswith("pop")]
        ok = len(pops) == 1 and not others and bool(f.cfg.in_loop(pops[0])) if pops else False
        why = "consumes by %s in a loop" % callee.split("::")[-1]
        if ok:
            pb = pops[0]
            loop = f.cfg.in_loop(pb)[0]
            # the loop exits only on None; on Some the item is pushed to the result vector
            dest = f.term(pb)["dest"]["local"]
            pushes = [bb for bb, t in f.calls() if "func" in t and t["func"]["key"] == "std::vec::Vec::push" and bb in loop["body"]]
            okp = False
            for b2 in pushes:
                a = strip(vp.operand(f, f.term(b2)["args"][1]))
                okp = okp or (a[0] == "field" and a[2] in (0, "0") and any(x[0] in ("some",) or (x[0] == "downcast" and x[2] == "Some") for x in walk(a)) and any(
                    x[0] == "call" and x[3] == (f.key, pb) for x in walk(a)))
            # every iteration that got Some pushes: from the Some edge to the back edge passes a push
            exits_ok = True
            for bi in loop["body"]:
                for s in f.cfg.succ[bi]:
                    if s not in loop["body"]:
                        t = f.term(bi)
                        d = strip(vp.operand(f, t["discr"])) if t["k"] == "switch" else None
                        is_none_edge = d is not None and d[0] == "discr" and any(x[0] == "call" and x[3] == (f.key, pb) for x in walk(d)) and (
                            s == t["otherwise"] and all(v == 1 for v, _ in t["targets"]) or any(v == 0 and tb == s for v, tb in t["targets"]))
                        if not is_none_edge:
                            exits_ok = False
            some_ok = False
            for bi in loop["body"]:
                t = f.term(bi)
                if t["k"] == "switch":
                    d = strip(vp.operand(f, t["discr"]))
                    if d[0] == "discr" and any(x[0] == "call" and x[3] == (f.key, pb) for x in walk(d)) and all(f.cfg.dominates(bi, pp_) for pp_ in pushes):
                        some_t = [tb for v, tb in t["targets"] if v == 1]
                        if some_t:
                            p = f.cfg.escape_path(bi, set(pushes), targets={loop["header"]}, stop_edges={(bi, s) for s in f.cfg.succ[bi] if s != some_t[0]})
                            some_ok = p is None and bool(pushes)
            r = ret_term(view, f)
            ok = okp and exits_ok and some_ok
            why = "loop pushes the popped item on every iteration (%s), leaves only on None (%s), every Some is recorded (%s)" % (okp, exits_ok, some_ok)
        ctx.ob("R-SIDE", "%s:consumes-by-%s" % (short(fkey), callee.split("::")[-1]), ok, f.loc(), why)
    for Q in QUEUES:
        f = prog.fn(Q + "::into_sorted_iter")
        ctx.anchor(Q + "::into_sorted_iter", f is not None)
        r = ret_term(view, f)
        ok = r[0] == "adt" and r[1].endswith("IntoSortedIter") and len(r[3]) == 1 and is_param(r[3][0], 1)
        ctx.ob("R-SIDE", "%s::into_sorted_iter:wraps-self" % QNAME[Q], ok, f.loc(), "returns %s" % term_str(r)[:60])
    # the sorted iterators define no other consuming method
    for T in ("priority_queue::iterators::IntoSortedIter", "double_priority_queue::iterators::IntoSortedIter"):
        for tr in ("std::iter::Iterator", "std::iter::DoubleEndedIterator"):
            im = impl_for(prog, tr, T)
            if im:
                names = [i["name"] for i in im["items"] if i["kind"] == "Fn"]
                allowed = {"next", "size_hint"} if tr.endswith("::Iterator") else {"next_back"}
                ctx.ob("R-SIDE", "%s:%s:no-other-consumer" % (T.split("::")[0], tr.split("::")[-1]), set(names) <= allowed, "",
                       "methods defined: %s" % names)
    ctx.floor("R-SIDE", ctx.count("R-SIDE", view.config), 10)


# ------------------------------------------------------------------------------------------
# R-SERDE  (serde configuration)
# ------------------------------------------------------------------------------------------
def r_serde(ctx, view):
    prog = view.prog
    vp = view.vp
    fx = view.fx
    ctx.cur = view
    # the reader touches the map only by inserting the pair it has just read: no other entry is written
    vs = prog.fn("<store::serde::StoreVisitor as Visitor>::visit_seq")
    if vs is not None:
        foreign = []
        for g in prog.family(vs.key):
            for ev in fx.events(g):
                if ev["kind"] in ("mw", "mwraw", "mr") and ev.get("comp") == "map":
                    nm = ev.get("name") or ""
                    mc = ev.get("mclass") or ""
                    if ev["kind"] == "mr" and nm not in ("last_mut", "first_mut", "get_index_mut", "get_index_mut2", "get_mut", "get_full_mut", "get_full_mut2", "iter_mut", "values_mut"):
                        continue
                    if nm == "insert" and mc == "grow":
                        a = fx.args_vp(ev["ci"])
                        if len(a) == 3 and all(any(x[0] == "call" and x[1].endswith("next_element") for x in walk(y)) for y in a[1:]):
                            continue
                    if nm in ("reserve", "with_capacity_and_hasher", "with_hasher", "len", "capacity", "contains_key", "get", "get_full", "get_index_of"):
                        continue
                    foreign.append("%s line %d" % (nm or mc, ev["span"]["line"]))
        ctx.ob("R-SERDE", "visit_seq:writes-only-the-pair-read", not foreign, vs.loc(),
               "the only map write is insert(item, priority) of the pair just read" if not foreign else
               "other accesses that can write map entries: %s" % "; ".join(foreign))
    ser = prog.fn("<store::Store as Serialize>::serialize")
    ctx.anchor("Serialize for Store (serde feature)", ser is not None)
    ser_calls = [(g, bb, t) for g in prog.family(ser.key) for bb, t in g.calls()]   # the element may be written inside a closure
    names = [t["func"]["name"] for g, bb, t in ser_calls if "func" in t]
    ok = "serialize_seq" in names and "serialize_element" in names and "end" in names
    ctx.ob("R-SERDE", "Store::serialize:is-a-sequence", ok, ser.loc(), "uses serialize_seq / serialize_element / end (%s)" % [n for n in names if n.startswith(("serialize", "end"))])
    # element = (&I, &P) from iterating the map only; length hint = size
    el = [t for g, bb, t in ser_calls if "func" in t and t["func"]["name"] == "serialize_element"]
    okel = False
    if el:
        g = el[0]["func"]["gargs"]
        tys = [x["s"] for x in g]
        okel = any(x.replace(" ", "") in ("(&I,&P)",) for x in tys)
    ctx.ob("R-SERDE", "Store::serialize:element-is-(item,priority)", okel, ser.loc(), "serialize_element::<%s>" % (tys if el else "?"))
    it = [t for bb, t in ser.calls() if "func" in t and t["func"]["name"] in ("into_iter", "try_for_each", "for_each", "try_fold")
          and (t["func"].get("trait") or "").startswith("std::iter::")]
    def over_map(x):
        # the map itself, or a read-only whole-map view of it (`&self.map`, `self.map.iter()`)
        x = strip(x)
        hops = 0
        while hops < 6:
            hops += 1
            while x[0] in ("ref", "deref"):
                x = strip(x[1])
            c = component(x)
            if c:
                return c[0] == "map"
            if x[0] == "param" and x[2] == 1 and hops > 1:
                return True   # `self.iter()` / `(&self).into_iter()`: the Store's own whole-map view (R-READERS)
            if x[0] == "call" and x[1].split("::")[-1] in ("iter", "into_iter", "by_ref", "as_slice") and len(x[2]) == 1:
                x = strip(x[2][0])
                continue
            return False
        return False
    okit = bool(it) and all(over_map(vp.operand(ser, t["args"][0])) for t in it)
    foot = set()
    for bb, t in ser.calls():
        for a in t["args"]:
            for x in walk(vp.operand(ser, a)):
                c = component(x)
                if c:
                    foot.add(c[0])
    ctx.ob("R-SERDE", "Store::serialize:iterates-the-map", okit and foot <= {"map", "size"}, ser.loc(), "reads components %s" % sorted(foot))
    de = prog.fn("<store::Store as Deserialize>::deserialize")
    ctx.anchor("Deserialize for Store", de is not None)
    names = [t["func"]["name"] for bb, t in de.calls() if "func" in t]
    ctx.ob("R-SERDE", "Store::deserialize:requests-a-sequence", names == ["deserialize_seq"], de.loc(), "calls %s" % names)
    vs = prog.fn("<store::serde::StoreVisitor as Visitor>::visit_seq")
    if vs is None:
        # deferred (like the floors): the other rules still report what the code that took its place does
        ctx.blind.append("anchor lost: StoreVisitor::visit_seq")
    else:
        ne = [t for g in prog.family(vs.key) for bb, t in g.calls() if "func" in t and t["func"]["name"] == "next_element"]
        okne = False
        tys = []
        if ne:
            tys = [x["s"] for x in ne[0]["func"]["gargs"]]
            okne = any(x.replace(" ", "") == "(I,P)" for x in tys)
        ctx.ob("R-SERDE", "visit_seq:element-is-(item,priority)", okne, vs.loc(), "next_element::<%s>: same arity and order as the writer" % tys)
    # both queue kinds delegate to the Store impls (so either kind reads the other's output) and re-sift
    for Q in QUEUES:
        s = prog.fn("<%s as Serialize>::serialize" % Q)
        ctx.anchor("Serialize for " + Q, s is not None)
        calls = [fx.call_info(s, bb) for bb, _ in s.calls()]
        ok = len(calls) == 1 and calls[0].local_callee == ser.key and component_is_store(fx.args_vp(calls[0])[0])
        ctx.ob("R-SERDE", "%s::serialize:delegates" % QNAME[Q], ok, s.loc(), "serialize = self.store.serialize(serializer)")
        d = prog.fn("<%s as Deserialize>::deserialize" % Q)
        ctx.anchor("Deserialize for " + Q, d is not None)
        calls = [fx.call_info(d, bb) for bb, _ in d.calls()]
        ok = any(c.local_callee == de.key for c in calls)
        ctx.ob("R-SERDE", "%s::deserialize:delegates" % QNAME[Q], ok, d.loc(), "deserialize = Store::deserialize(..).map(build + heap_build)")
    ctx.floor("R-SERDE", ctx.count("R-SERDE", view.config), 9)


def component_is_store(t):
    t = strip(t)
    return t[0] == "field" and t[2] == "store" and is_param(t[1], 1)


# ------------------------------------------------------------------------------------------
# R-ASSIGN (C03): an update stores the offered priority unconditionally and hands back the old one
# ------------------------------------------------------------------------------------------
def found_entry(view, g):
    """where the found case of a keyed lookup starts in body g: 'entry' for a continuation closure, else the target
    block of the `present` edge of the switch on the lookup's Option / `?`"""
    from .core import edge_presence
    if g.is_closure:
        return "entry"
    for bi in sorted(g.cfg.reach):
        tt = g.term(bi)
        if tt["k"] != "switch":
            continue
        d = strip(view.vp.operand(g, tt["discr"]))
        if d[0] == "discr" and any(x[0] == "call" and x[1].split("::")[-1] in ("get_full_mut", "get_full_mut2", "get_mut", "get_full") for x in walk(d)):
            for nb in g.cfg.succ[bi]:
                if edge_presence(d, tt, nb) == "present":
                    return nb
    return None


def r_assign(ctx, view):
    """`change_priority` / `push` on a present item: the offered priority is written into the entry on EVERY path of the
    found branch (no user comparison decides whether to write), and the value returned is the one swapped out"""
    prog = view.prog
    vp = view.vp
    fx = view.fx
    ctx.cur = view
    f = prog.fn("store::Store::change_priority")
    ctx.anchor("Store::change_priority", f is not None)
    fam = prog.family(f.key)
    writes = []
    userops = []
    for g in fam:
        for bb, t in g.calls():
            ci = fx.call_info(g, bb)
            if ci.key in ("std::mem::swap", "std::mem::replace"):
                a = [vp.operand(g, x) for x in t["args"]]
                tgt = what_entry_part(("deref", a[0])) or (what_entry_part(("deref", a[1])) if len(a) > 1 else None)
                if tgt == "priority":
                    writes.append((g, bb, a))
            elif ci.cmp or (ci.eq and ci.name in ("eq", "ne")):
                userops.append("%s line %d" % (ci.key, t["span"]["line"]))
    ok = len(writes) == 1
    why = "%d write(s) of the offered priority into the found entry" % len(writes)
    if ok:
        g, bb, a = writes[0]
        start = found_entry(view, g)
        esc = None
        if start is None:
            ok = False
            why = "no found-branch located"
        else:
            esc = None if (bb == start or start == "entry" and bb == 0) else (g.cfg.escape_path_from(0 if start == "entry" else start, {bb}))
            ok = esc is None
            why = "the offered priority is written into the entry on every path of the found branch" if ok else "a path of the found branch skips the write: %s" % esc
        # the returned old priority is the value that came out of the entry: mem::replace's result, or the swap's other operand
        call_t = view.vp.call_term(g, bb, g.term(bb))
        other = strip(a[1]) if what_entry_part(("deref", a[0])) else strip(a[0])
        okr = False
        shown = []
        for h in fam:
            for r in ret_alts(view, h):
                r = strip(r)
                if r[0] == "adt" and r[2] == "Some" and len(r[3]) == 1:
                    r = strip(r[3][0])
                if r[0] == "tuple" and len(r[1]) == 2:
                    first = strip(r[1][0])
                    shown.append(term_str(first)[:40])
                    if first == other or (first[0] == "call" and first[1] == "std::mem::replace" and len(first) > 3 and first[3] == (g.key, bb)):
                        okr = True
        ctx.ob("R-ASSIGN", "Store::change_priority:returns-the-swapped-out-priority", bool(okr), g.loc(),
               "returns %s as the old priority; the entry was exchanged with %s" % (shown[:2], term_str(other)[:40]))
    ctx.ob("R-ASSIGN", "Store::change_priority:unconditional-write", ok, f.loc(), why)
    ctx.ob("R-ASSIGN", "Store::change_priority:no-user-comparison", not userops, f.loc(),
           "the Store-level update compares nothing" if not userops else "user comparison(s) decide the update: %s" % "; ".join(userops))
    g = prog.fn("store::Store::change_priority_by")
    ctx.anchor("Store::change_priority_by", g is not None)
    setter = []
    for h in prog.family(g.key):
        for bb, t in h.calls():
            if "func" in t and (t["func"].get("trait") or "").startswith("std::ops::Fn"):
                a0 = strip(vp.operand(h, t["args"][0]))
                if a0[0] == "param" and a0[1] == g.key and a0[2] == 3:
                    setter.append((h, bb))
    ok = len(setter) == 1 and not setter[0][0].cfg.loops
    if ok:
        h, sbb = setter[0]
        st = found_entry(view, h)
        ok = st is not None and (sbb == st or (st == "entry" and sbb == 0) or h.cfg.escape_path_from(0 if st == "entry" else st, {sbb}) is None)
    ctx.ob("R-ASSIGN", "Store::change_priority_by:setter-once", ok, g.loc(), "the priority setter runs exactly once on the found entry (%d call sites)" % len(setter))
    for Q in QUEUES:
        q = prog.fn(Q + "::push")
        ctx.anchor(Q + "::push", q is not None)
        wr = []
        user = []
        for bb, t in q.calls():
            ci = fx.call_info(q, bb)
            if ci.key in ("std::mem::swap", "std::mem::replace"):
                a = [vp.operand(q, x) for x in t["args"]]
                if what_entry_part(("deref", a[0])) == "priority":
                    wr.append((bb, a))
            elif (ci.cmp or (ci.eq and ci.name in ("eq", "ne"))) and not ci.local_callee:
                user.append("%s line %d" % (ci.key, t["span"]["line"]))
        ok = len(wr) == 1
        why = "%d priority write(s)" % len(wr)
        if ok:
            bb, a = wr[0]
            # every path through the Occupied arm passes the write: the arm's entry block is the switch target that dominates it
            arm = None
            for sb in sorted(q.cfg.reach):
                tt = q.term(sb)
                if tt["k"] == "switch":
                    d = strip(vp.operand(q, tt["discr"]))
                    if d[0] == "discr" and any(x[0] == "call" and x[1].endswith("::entry") for x in walk(d)):
                        for val, tb in tt["targets"]:
                            if q.cfg.dominates(tb, bb):
                                arm = (sb, tb)
            if arm:
                esc = q.cfg.escape_path(arm[0], {bb}, stop_edges={(arm[0], s) for s in q.cfg.succ[arm[0]] if s != arm[1]})
                ok = esc is None
                why = "the Occupied arm replaces the priority on every path" if ok else "a path of the Occupied arm skips the replace: %s" % esc
                r = ret_term(view, q)
            else:
                ok, why = False, "Occupied arm not found"
        ctx.ob("R-ASSIGN", "%s::push:occupied-arm-replaces" % QNAME[Q], ok, q.loc(), why)
        ctx.ob("R-ASSIGN", "%s::push:no-user-comparison" % QNAME[Q], not user, q.loc(),
               "push itself compares nothing (the sifts do)" if not user else "; ".join(user))


# ------------------------------------------------------------------------------------------
# R-READERS / R-RETURNS (C03): what the read accessors read, and where the returned values come from
# ------------------------------------------------------------------------------------------
def _calls_in(t):
    return [x for x in walk(t) if x[0] == "call"]


def _is_payload_field(t, call_suffixes, idx):
    """t == some(call ..<suffix>(..)).idx"""
    t = strip(t)
    if t[0] == "field" and t[2] == idx:
        b = strip(t[1])
        if b[0] == "some":
            c = strip(b[1])
            return c[0] == "call" and c[1].split("::")[-1] in call_suffixes
    return False


def ret_alts(view, f):
    r = view.vp.local(f, 0)
    out = []

    def flat(t):
        if t[0] == "phi":
            for a in t[4]:
                flat(a)
        else:
            out.append(t)
    flat(r)
    return out


def r_readers(ctx, view):
    prog = view.prog
    vp = view.vp
    ctx.cur = view

    def ob(key, ok, f, why):
        ctx.ob("R-READERS", key, bool(ok), f.loc() if f else "", why)

    f = prog.fn("store::Store::len")
    ctx.anchor("Store::len", f is not None)
    r = strip(ret_term(view, f))
    ok = (component(r) and component(r)[0] == "size") or (r[0] == "call" and r[1].split("::")[-1] == "len" and component(r[2][0]))
    ob("Store::len", ok, f, "len() = %s (must be the size field / the length of one of the containers)" % term_str(r)[:60])
    f = prog.fn("store::Store::is_empty")
    ctx.anchor("Store::is_empty", f is not None)
    r = strip(ret_term(view, f))
    ok = False
    if r[0] == "binop" and r[1] == "Eq":
        a, b = strip(r[2]), strip(r[3])
        for x, y in ((a, b), (b, a)):
            if const_int(y) == 0 and ((component(x) and component(x)[0] == "size") or (x[0] == "call" and x[1].split("::")[-1] == "len")):
                ok = True
    if r[0] == "call" and r[1].split("::")[-1] == "is_empty" and r[2] and component(r[2][0]):
        ok = True
    ob("Store::is_empty", ok, f, "is_empty() = %s (must be `size == 0` / emptiness of a container)" % term_str(r)[:60])
    # any keyed lookup of the map will do for the read accessors: the result types (`&P`, `(&I, &P)` with I and P type
    # parameters) force which components of the found entry are returned
    KEYED = ("get", "get_full", "get_key_value", "get_mut", "get_full_mut", "get_full_mut2")
    for name, lookups in (("get_priority", KEYED), ("get", ("get_full", "get_key_value", "get_full_mut2")), ("get_mut", ("get_full_mut2",))):
        f = prog.fn("store::Store::" + name)
        ctx.anchor("Store::" + name, f is not None)
        from .core import deep_ret as _dr
        r = _dr(view, f)   # through a delegation to a sibling accessor (`get_priority` written through `get`)
        cs = [c for c in _calls_in(r) if c[2] and component(c[2][0]) and component(c[2][0])[0] == "map"]
        cs = list({(c[1], c[3] if len(c) > 3 else None): c for c in cs}.values())   # one lookup however often its result is mentioned
        ok = len(cs) == 1 and cs[0][1].split("::")[-1] in lookups and len(cs[0][2]) == 2 and is_param(cs[0][2][1], 2)
        ob("Store::" + name, ok, f, "%s(item) is the map lookup %s on the `item` parameter" % (name, [c[1].split("::")[-1] for c in cs]))
    for key, ctor, call in (("store::Store::iter", "Iter", "iter"), ("<store::Store as IntoIterator>::into_iter", "IntoIter", "into_iter"),
                            ("<&store::Store as IntoIterator>::into_iter", "Iter", "iter")):
        f = prog.fn(key)
        ctx.anchor(key, f is not None)
        from .core import deep_ret as _deep_ret
        r = strip(_deep_ret(view, f))
        views = {"iter": ("iter", "as_slice"), "into_iter": ("into_iter",)}[call]
        ok = r[0] == "adt" and r[1].endswith(ctor)
        nviews = 0
        if ok:
            # every field of the iterator is the whole-map view, the number 0, or the length of that view
            def fine(x):
                x = strip(x)
                while x[0] in ("ref", "deref"):
                    x = strip(x[1])
                if x[0] == "const":
                    return const_int(x) == 0
                if x[0] == "call" and x[1].split("::")[-1] in views and len(x[2]) == 1 and component(x[2][0]) and component(x[2][0])[0] == "map":
                    return "view"
                if x[0] == "call" and x[1].split("::")[-1] == "len" and len(x[2]) == 1:
                    return bool(fine(x[2][0]) == "view" or (component(x[2][0]) and component(x[2][0])[0] == "map"))
                return False
            got = [fine(x) for x in r[3]]
            nviews = sum(1 for g in got if g == "view")
            ok = all(got) and nviews == 1
        ob(short(key), ok, f, "wraps the whole-map view %s of the map (%s)" % ("/".join(views), term_str(r)[:50]))
    f = prog.fn("store::Store::into_vec")
    ctx.anchor("Store::into_vec", f is not None)
    r = ret_term(view, f)
    names = [c[1].split("::")[-1] for c in _calls_in(r)]
    cl = prog.closures_of(f.key)
    # the projection handed to `map`: a closure, or a (nested) function used as a value
    fnvals = [prog.fn(x[1]) for x in walk(r) if x[0] == "fnconst" and prog.fn(x[1]) is not None and prog.fn(x[1]).body]
    mappers = list(cl) + [g for g in fnvals if g not in cl]
    okc = len(mappers) == 1
    if okc:
        cr = strip(ret_term(view, mappers[0]))
        okc = cr[0] == "field" and cr[2] in (0, "0") and strip(cr[1])[0] in ("cparam", "param")
    # over the map's own consuming iterator, or over the Store's (checked just above to wrap it; its `next` is wired by R-ESI)
    ok = "collect" in names and "into_iter" in names and okc and any(
        c[1].split("::")[-1] == "into_iter" and c[2] and ((component(c[2][0]) and component(c[2][0])[0] == "map") or
                                                          is_param(c[2][0], 1)) for c in _calls_in(r))
    if not ok:
        # `self.map.into_keys().collect()`: the items, by indexmap's own projection
        ok = "collect" in names and not mappers and any(c[1].split("::")[-1] == "into_keys" and c[2] and component(c[2][0]) and component(c[2][0])[0] == "map" for c in _calls_in(r))
    ob("Store::into_vec", ok, f, "collects the items (.0) of map.into_iter()")
    # queue level: whatever the delegation chain, the value returned is the Store-level one on `self.store`
    from .core import deep_ret, subst_params
    from .rules_iter import unsite
    for Q in QUEUES:
        table = [(name, "%s::%s" % (Q, name), "store::Store::" + name) for name in ("len", "is_empty", "get", "get_priority", "get_mut", "iter", "into_vec")]
        table.append(("into_iter", "<%s as IntoIterator>::into_iter" % Q, "<store::Store as IntoIterator>::into_iter"))
        table.append(("&into_iter", "<&%s as IntoIterator>::into_iter" % Q, "store::Store::iter"))
        for name, qkey, skey in table:
            q = prog.fn(qkey)
            sfn = prog.fn(skey)
            ctx.anchor(qkey, q is not None and sfn is not None)
            got = unsite(strip_sites_closures(deep_ret(view, q)))
            # expected: the Store function's own (deep) return term with self := self.store and the key forwarded
            sargs = [("field", ("deref", ("param", q.key, 1, "self")), "store", Q)]
            if q.locals[1]["ty"].get("k") != "ref":
                sargs = [("field", ("param", q.key, 1, "self"), "store", Q)]
            for i in range(2, sfn.arg_count + 1):
                sargs.append(("param", q.key, i, sfn.locals[i]["name"]))
            want = unsite(strip_sites_closures(subst_params(deep_ret(view, sfn), sfn.key, tuple(sargs))))
            okf = norm_refs(got) == norm_refs(want)
            ob("%s::%s" % (QNAME[Q], name), okf, q, "returns what Store::%s returns for self.store%s" % (
                skey.split("::")[-1], "" if okf else " - found %s, expected %s" % (term_str(got)[:70], term_str(want)[:70])))


def strip_sites_closures(t):
    """closure terms carry their own key (different per enclosing function): compare them by their body's return term"""
    if not isinstance(t, tuple) or not t:
        return t
    if isinstance(t[0], str) and t[0] == "closure":
        return ("closure", "_", tuple(strip_sites_closures(x) for x in t[2]))
    return tuple(strip_sites_closures(x) if isinstance(x, tuple) else x for x in t)


def norm_refs(t):
    """drop reference / dereference / parameter-name noise so that `&*self.store` and `self.store` compare equal"""
    if not isinstance(t, tuple) or not t:
        return t
    if isinstance(t[0], str):
        if t[0] in ("ref", "rawref", "deref"):
            return norm_refs(t[1])
        if t[0] == "param":
            return ("param", t[2])
        if t[0] == "field":
            return ("field", norm_refs(t[1]), t[2])
    return tuple(norm_refs(x) if isinstance(x, tuple) else x for x in t)



def r_returns(ctx, view):
    prog = view.prog
    vp = view.vp
    ctx.cur = view

    def ob(key, ok, f, why):
        ctx.ob("R-RETURNS", key, bool(ok), f.loc() if f else "", why)

    f = prog.fn("store::Store::swap_remove")
    ctx.anchor("Store::swap_remove", f is not None)
    r = strip(ret_term(view, f))
    ok = False
    if r[0] == "call" and r[1].split("::")[-1] == "swap_remove_index" and component(r[2][0]) and component(r[2][0])[0] == "map":
        idx = strip(r[2][1])
        if idx[0] == "field" and idx[2] in (0, "0"):
            h = strip(idx[1])
            ok = h[0] == "call" and h[1].split("::")[-1] == "swap_remove" and component(h[2][0]) and component(h[2][0])[0] == "heap" and \
                strip(h[2][1])[0] == "field" and is_param(strip(h[2][1])[1], 2)
    ob("Store::swap_remove", ok, f, "returns map.swap_remove_index(heap.swap_remove(position).0): the entry that was at `position` (%s)" % term_str(r)[:70])
    def found_values(fkey):
        """values produced for the found case, whatever the style: the closure's result, or the payload of a `Some(..)` result"""
        out = []
        root = prog.fn(fkey)
        for g in prog.family(fkey):
            for a in ret_alts(view, g):
                a = strip(a)
                if a[0] == "adt" and a[2] == "Some" and len(a[3]) == 1:
                    out.append((g, strip(a[3][0])))
                elif g.is_closure and not (a[0] == "adt" and a[2] == "None"):
                    out.append((g, a))
        return root, out

    def is_qp_at_found(p):
        cs = ([p] if p[0] == "call" else []) + _calls_in(("x", p))
        return any(c[1].split("::")[-1] in ("get_unchecked", "index", "get") and c[2] and component(c[2][0]) and component(c[2][0])[0] == "qp" and
                   _is_payload_field(c[2][1], ("get_full_mut", "get_full_mut2"), 0) for c in cs)

    root, vals = found_values("store::Store::remove")
    ctx.anchor("Store::remove", root is not None)
    ok = False
    shown = "-"
    for g, r in vals:
        if r[0] == "tuple" and len(r[1]) == 3:
            shown = term_str(r)[:80]
            p = strip(r[1][2])
            ok = _is_payload_field(r[1][0], ("swap_remove_full",), 1) and _is_payload_field(r[1][1], ("swap_remove_full",), 2) and \
                p[0] == "call" and p[1].split("::")[-1] == "swap_remove" and component(p[2][0]) and component(p[2][0])[0] == "qp"
    ob("Store::remove", ok, root, "returns (item, priority) of the removed entry and its former heap position (%s)" % shown)
    root, vals = found_values("store::Store::change_priority")
    ctx.anchor("Store::change_priority", root is not None)
    ok = any(r[0] == "tuple" and len(r[1]) == 2 and is_qp_at_found(strip(r[1][1])) for g, r in vals)
    ob("Store::change_priority:position", ok, root, "second component is qp[index of the found entry] (%s)" % [term_str(r)[:60] for g, r in vals][:2])
    root, vals = found_values("store::Store::change_priority_by")
    ctx.anchor("Store::change_priority_by", root is not None)
    ok = any(is_qp_at_found(r) for g, r in vals)
    ob("Store::change_priority_by:position", ok, root, "returns qp[index of the found entry] (%s)" % [term_str(r)[:60] for g, r in vals][:2])
    for Q in QUEUES:
        pops = ("pop", "pop_if") if Q == PQ else ("pop_min", "pop_max", "pop_min_if", "pop_max_if")
        for name in pops:
            q = prog.fn("%s::%s" % (Q, name))
            ctx.anchor("%s::%s" % (Q, name), q is not None)
            alts = []
            for g in prog.family(q.key):
                if g is q or any(c[1].split("::")[-1] in ("and_then", "map") for c in _calls_in(ret_term(view, q))):
                    alts.extend(ret_alts(view, g))
            want = "swap_remove_if" if name.endswith("_if") else "swap_remove"
            bad = []
            for a in alts:
                a = strip(a)
                if a[0] == "adt" and a[2] == "None":
                    continue
                if a[0] == "call" and a[1].split("::")[-1] == want and a[1].startswith("store::Store"):
                    continue
                if a[0] == "call" and a[1].split("::")[-1] in ("and_then", "map", "from_residual", "branch"):
                    continue
                bad.append(term_str(a)[:50])
            ob("%s::%s" % (QNAME[Q], name), not bad and bool(alts), q, "every non-None result is the pair returned by Store::%s (%s)" % (want, bad or "ok"))
        # every way out of Q::remove hands back Store::remove's answer for the named item (no other source of a result)
        q = prog.fn("%s::remove" % Q)
        ctx.anchor("%s::remove" % Q, q is not None)
        foreign = []
        for a in ret_alts(view, q):
            a = strip(a)
            if a[0] == "adt" and a[2] in ("None", "Some"):
                continue
            if a[0] == "call" and a[1].split("::")[-1] in ("from_residual", "map", "and_then") and any(
                    c[1] == "store::Store::remove" for c in _calls_in(a)):
                continue
            foreign.append(term_str(a)[:60])
        ob("%s::remove:single-source" % QNAME[Q], not foreign, q,
           "every result is None / Store::remove's answer" if not foreign else "a result that does not come from Store::remove(item): %s" % foreign)
        cl = prog.fn("%s::remove::{closure#0}" % Q)
        if cl is not None:
            r = strip(ret_term(view, cl))
            ok = r[0] == "tuple" and len(r[1]) == 2 and _is_payload_field(r[1][0], ("remove",), 0) and _is_payload_field(r[1][1], ("remove",), 1)
            ob("%s::remove" % QNAME[Q], ok, cl, "returns (item, priority) of Store::remove's result (%s)" % term_str(r)[:70])
        else:
            q = prog.fn("%s::remove" % Q)
            alts = [strip(a) for a in ret_alts(view, q)]
            ok = all((a[0] == "adt" and a[2] in ("None", "Some")) or (a[0] == "call" and a[1].split("::")[-1] == "from_residual") for a in alts) and any(
                a[0] == "adt" and a[2] == "Some" and any(_is_payload_field(x, ("remove",), 0) for x in walk(a)) for a in alts)
            ob("%s::remove" % QNAME[Q], ok, q, "returns (item, priority) of Store::remove's result")
        cl = prog.fn("%s::change_priority::{closure#0}" % Q)
        if cl is not None:
            r = strip(ret_term(view, cl))
            ob("%s::change_priority" % QNAME[Q], _is_payload_field(r, ("change_priority",), 0), cl, "returns the old priority handed back by Store::change_priority (%s)" % term_str(r)[:70])
        else:
            q = prog.fn("%s::change_priority" % Q)
            alts = [strip(a) for a in ret_alts(view, q)]
            ok = any(a[0] == "adt" and a[2] == "Some" and _is_payload_field(a[3][0], ("change_priority",), 0) for a in alts)
            ob("%s::change_priority" % QNAME[Q], ok, q, "returns the old priority handed back by Store::change_priority")
        q = prog.fn("%s::change_priority_by" % Q)
        ctx.anchor("%s::change_priority_by" % Q, q is not None)
        alts = [strip(a) for a in ret_alts(view, q)]
        ok = bool(alts) and all(a[0] == "call" and a[1].split("::")[-1] == "is_some" and any(
            c[1].split("::")[-1] == "change_priority_by" for c in _calls_in(a)) for a in alts)
        if not ok and all(a[0] == "const" for a in alts) and {a[1].replace("const ", "") for a in alts} == {"true", "false"}:
            ok = True  # match form: Some => true, None => false (R-ABSENT ties the arms to the lookup)
        ob("%s::change_priority_by" % QNAME[Q], ok, q, "returns whether the lookup succeeded (%s)" % [term_str(a)[:40] for a in alts])
        q = prog.fn("%s::push" % Q)
        alts = [strip(a) for a in ret_alts(view, q)]
        bad = []
        some = 0
        swaps_offered = any("func" in t and t["func"]["key"] == "std::mem::swap" and what_entry_part(("deref", vp.operand(q, t["args"][0]))) == "priority"
                            for bb, t in q.calls())
        for a in alts:
            if a[0] == "adt" and a[2] == "None":
                continue
            if a[0] == "adt" and a[2] == "Some":
                x = strip(a[3][0])
                # the value swapped / replaced out of the entry (possibly carried through a tuple or an Option first)
                cands = [x] + [y for y in walk(x)]
                if any(y[0] == "call" and y[1] == "std::mem::replace" and what_entry_part(("deref", y[2][0])) == "priority" and is_param(y[2][1], 3) for y in cands):
                    some += 1
                    continue
                if swaps_offered and is_param(x, 3):
                    some += 1   # mem::swap(entry, &mut priority): `priority` now holds the old value
                    continue
            bad.append(term_str(a)[:60])
        ob("%s::push" % QNAME[Q], not bad and some >= 1, q, "returns None or Some(the priority replaced in the entry) (%s)" % (bad or "ok"))


# ------------------------------------------------------------------------------------------
# R-CONSUME: bulk insertion reads its whole source on every path
# ------------------------------------------------------------------------------------------
CONSUME_FNS = [
    "<store::Store as Extend<(..)>>::extend", "<store::Store as FromIterator<(..)>>::from_iter", "<store::Store as From<Vec>>::from",
    "<priority_queue::PriorityQueue as Extend<(..)>>::extend", "<double_priority_queue::DoublePriorityQueue as Extend<(..)>>::extend",
    "<priority_queue::PriorityQueue as FromIterator<(..)>>::from_iter", "<double_priority_queue::DoublePriorityQueue as FromIterator<(..)>>::from_iter",
    "<priority_queue::PriorityQueue as From<Vec>>::from", "<double_priority_queue::DoublePriorityQueue as From<Vec>>::from",
]


def r_consume(ctx, view):
    """R-CONSUME.  In Extend::extend, FromIterator::from_iter and From<Vec>::from the source (parameter, or the iterator made
    from it) is consumed on EVERY normal path to the return: each path passes a block that hands the source by value to a
    crate function that consumes it (Store::extend / from_iter / from) or that drives `Iterator::next` on it in a loop
    whose only exit is the `None` answer.  An early return that depends on anything else (a size hint, the current length)
    silently drops elements the iterator would have yielded."""
    prog = view.prog
    vp = view.vp
    fx = view.fx
    ctx.cur = view
    n = 0
    for key in CONSUME_FNS:
        f = prog.fn(key)
        ctx.anchor(key, f is not None)
        src = f.arg_count   # the source is the last parameter (self, iter) / (iter) / (vec)
        consumers = set()
        why = []

        def from_source(t):
            for x in walk(t):
                if x[0] == "param" and x[2] == src:
                    return True
            return False

        for bb, t in f.calls():
            ci = fx.call_info(f, bb)
            args = fx.args_vp(ci)
            if not any(from_source(a) for a in args):
                continue
            nm = ci.name
            if ci.local_callee and any(ci.local_callee.endswith(s) for s in ("::extend", "::from_iter", "::from")) and ci.local_callee in CONSUME_FNS:
                consumers.add(bb)
                why.append("%s (line %d)" % (short(ci.local_callee), t["span"]["line"]))
            elif nm == "next" and "Iterator" in ci.key:
                # a `for` loop: the loop is left only through the None arm of this very call
                lp = [l for l in f.cfg.loops if bb in l["body"]]
                if lp:
                    consumers.add(bb)
                    why.append("loop over next() (line %d)" % t["span"]["line"])
            elif nm in ("for_each", "fold", "collect", "count", "last") and "Iterator" in ci.key:
                consumers.add(bb)
                why.append("%s (line %d)" % (nm, t["span"]["line"]))
        n += 1
        if not consumers:
            ctx.ob("R-CONSUME", short(key), False, f.loc(), "no call consumes the source parameter")
            continue
        esc = None if 0 in consumers else f.cfg.escape_path(0, consumers, start_after=False)
        ctx.ob("R-CONSUME", short(key), esc is None, f.loc(),
               ("every normal path to the return consumes the source: %s" % "; ".join(sorted(set(why)))) if esc is None else
               "a normal path returns without reading the source: %s" % " -> ".join("bb%d@L%d" % (b, f.term(b)["span"]["line"]) for b in esc[:12]))
        # the loops that drive next() end only when it answers None
        for bb in sorted(consumers):
            t = f.term(bb)
            if t["func"]["name"] != "next":
                continue
            lp = [l for l in f.cfg.loops if bb in l["body"]]
            body = set().union(*[l["body"] for l in lp]) if lp else set()
            exits = [(a, b) for a in body for b in f.cfg.succ[a] if b not in body]
            okx = True
            bad = None
            from .core import edge_presence
            for (a, b) in exits:
                ta = f.term(a)
                if ta["k"] == "switch":
                    d = strip(vp.operand(f, ta["discr"]))
                    if d[0] == "discr" and edge_presence(d, ta, b) == "absent" and any(x[0] == "call" and x[1].endswith("::next") for x in walk(d)):
                        continue
                okx = False
                bad = (a, b)
            n += 1
            ctx.ob("R-CONSUME", "%s:loop-exit@next" % short(key), okx, f.loc(t["span"]),
                   "the loop ends only when next() answers None" if okx else "the loop can be left at bb%d -> bb%d (line %d) before the source is exhausted" % (bad[0], bad[1], f.term(bad[0])["span"]["line"]))
    ctx.floor("R-CONSUME", n, 9)
