"""Closure expansion for NEW code (DESIGN 8.8).

The reviewed tree hands its closures to std combinators only, and the rules know those shapes.  A refactoring can
introduce two shapes they do not know: a closure value that is *called* (`wanted(&a, b)` where `wanted` is a closure handed
to a new private helper that has been inlined), and a NEW closure handed to a combinator in a place where the reviewed
code had a loop or a match (`vec.into_iter().for_each(|(item, priority)| ..)` instead of `for (item, priority) in vec`).
Both are rewritten, on the fact base, into the code they stand for:

  * a call of a closure value that is known in the same body is replaced by the closure's MIR body; the captured variables
    are substituted by the places they were captured from (`*(_env.k)` with `k: &mut counter` becomes `counter`);
  * `Option::{map, and_then, map_or}` and `Iterator::for_each` applied to a closure that is not in the reviewed inventory
    (rules/known_closures.json) are expanded into the match / loop they abbreviate, and the closure call inside is inlined.

Closures of the reviewed inventory handed to combinators are left alone.  A closure every use of which was expanded
disappears from the program.
"""
import copy
import re

from .inline import _walk_places, _walk_consts, _retarget, _PROM

FN_TRAITS = ("std::ops::FnOnce::call_once", "std::ops::FnMut::call_mut", "std::ops::Fn::call")
COMBINATORS = {"std::option::Option::map": "map", "std::option::Option::and_then": "and_then", "std::option::Option::map_or": "map_or",
               "std::iter::Iterator::for_each": "for_each", "bool::then": "then",
               "std::result::Result::and_then": "r_and_then", "std::result::Result::map": "r_map"}
RESULT_VARIANTS = [[0, "Ok"], [1, "Err"]]
OPTION_VARIANTS = [[0, "None"], [1, "Some"]]


def _defs(body):
    d = {}
    for bi, b in enumerate(body["blocks"]):
        if b["cleanup"]:
            continue
        for si, s in enumerate(b["stmts"]):
            if s["k"] == "assign" and not s["place"]["proj"]:
                d.setdefault(s["place"]["local"], []).append(("stmt", bi, si, s))
        t = b["term"]
        if t["k"] == "call" and not t["dest"]["proj"]:
            d.setdefault(t["dest"]["local"], []).append(("call", bi, t))
    return d


def _resolve(body, defs, op, depth=0):
    """the closure aggregate an operand denotes: (closure key, local holding it, captured operands) or None"""
    if depth > 8 or op.get("k") not in ("copy", "move"):
        return None
    pl = op["place"]
    L, proj = pl["local"], pl["proj"]
    ds = defs.get(L, [])
    if len(ds) != 1 or ds[0][0] != "stmt" or body["locals"][L].get("arg"):
        return None
    rv = ds[0][3]["rv"]
    if not proj:
        if rv["k"] == "aggregate" and rv.get("agg") == "closure":
            return (rv["def"], L, rv["ops"])
        if rv["k"] == "use":
            return _resolve(body, defs, rv["op"], depth + 1)
        if rv["k"] == "ref" and not rv["place"]["proj"]:
            return _resolve(body, defs, {"k": "copy", "place": rv["place"]}, depth + 1)
        return None
    # a captured closure: field k of another closure's environment
    pr = [e for e in proj if e["k"] != "deref"]
    if len(pr) == 1 and pr[0]["k"] == "field":
        outer = _resolve(body, defs, {"k": "copy", "place": {"local": L, "proj": [], "ty": ""}}, depth + 1)
        if outer and pr[0]["i"] < len(outer[2]):
            return _resolve(body, defs, outer[2][pr[0]["i"]], depth + 1)
    return None


def _resolve_fnitem(body, defs, op, depth=0):
    """the function item an operand denotes (the `fn` descriptor of a `const` operand of FnDef type), through single
    assignments and references"""
    if depth > 8:
        return None
    if op.get("k") == "const":
        return op.get("fn")
    if op.get("k") not in ("copy", "move"):
        return None
    pl = op["place"]
    L = pl["local"]
    if [e for e in pl["proj"] if e["k"] != "deref"]:
        return None
    ds = defs.get(L, [])
    if len(ds) != 1 or ds[0][0] != "stmt" or body["locals"][L].get("arg"):
        return None
    rv = ds[0][3]["rv"]
    if rv["k"] == "use":
        return _resolve_fnitem(body, defs, rv["op"], depth + 1)
    if rv["k"] == "ref" and not [e for e in rv["place"]["proj"] if e["k"] != "deref"]:
        return _resolve_fnitem(body, defs, {"k": "copy", "place": {"local": rv["place"]["local"], "proj": [], "ty": ""}}, depth + 1)
    return None


def _written_again(body, X):
    """may local X change after it got its (first) value?  (a second whole assignment, a write through a projection, a
    mutable borrow, an argument that is assigned at all)"""
    nd = 0
    for b in body["blocks"]:
        if b["cleanup"]:
            continue
        for s in b["stmts"]:
            if s["k"] != "assign":
                continue
            if s["place"]["local"] == X:
                if s["place"]["proj"]:
                    return True
                nd += 1
            rv = s["rv"]
            if rv["k"] in ("ref", "addr") and rv.get("place", {}).get("local") == X and (rv.get("mut") or rv["k"] == "addr") \
                    and not any(e["k"] == "deref" for e in rv["place"]["proj"]):
                return True
        t = b["term"]
        if t["k"] == "call" and t["dest"]["local"] == X:
            if t["dest"]["proj"]:
                return True
            nd += 1
    return nd > (0 if body["locals"][X].get("arg") else 1)


def _subst_env(pl, ops, body, defs, snap=None):
    """place rooted in the closure environment -> the place that was captured.  A variable captured BY VALUE that may
    change between the creation of the closure and its call is read through a snapshot taken where the closure is created
    (snap: dict field index -> local, filled here; the caller inserts the snapshot assignments)."""
    proj = pl["proj"]
    i = 0
    if i < len(proj) and proj[i]["k"] == "deref":
        i += 1
    if not (i < len(proj) and proj[i]["k"] == "field" and proj[i]["i"] < len(ops)):
        return False
    cap = ops[proj[i]["i"]]
    if cap.get("k") not in ("copy", "move"):
        return False
    rest = proj[i + 1:]
    base_local, base_proj = cap["place"]["local"], list(cap["place"]["proj"])
    # `*(&mut x)`: look through the reference made for the capture
    if rest and rest[0]["k"] == "deref" and not base_proj:
        ds = defs.get(base_local, [])
        if len(ds) == 1 and ds[0][0] == "stmt" and ds[0][3]["rv"]["k"] == "ref":
            q = ds[0][3]["rv"]["place"]
            base_local, base_proj = q["local"], list(q["proj"])
            rest = rest[1:]
            pl["local"] = base_local
            pl["proj"] = copy.deepcopy(base_proj) + rest
            return True
    if snap and proj[i]["i"] in snap:
        pl["local"] = snap[proj[i]["i"]]
        pl["proj"] = rest
        return True
    pl["local"] = base_local
    pl["proj"] = copy.deepcopy(base_proj) + rest
    return True


def _splice_closure(F, bi, K, ops, params, dest, target, span):
    """append a copy of closure K's body to F; block bi jumps into it; -> ok"""
    cb = F["body"]
    body = copy.deepcopy(K["body"])
    # variables captured by value that may change between the creation of the closure and this call: the closure sees the
    # value they had when it was created
    snap = {}
    agg_at = None
    for xb in cb["blocks"]:
        for xi, xs in enumerate(xb["stmts"]):
            if xs["k"] == "assign" and xs["rv"].get("ops") is ops:
                agg_at = (xb, xs)
    if agg_at is not None and agg_at[1].get("snapshots"):
        snap = dict(agg_at[1]["snapshots"])      # a second call of the same closure value reads the same snapshots
    for k, cap in enumerate(ops):
        if k in snap:
            continue
        if cap.get("k") in ("copy", "move") and (cap["place"]["proj"] or _written_again(cb, cap["place"]["local"])):
            if agg_at is None or agg_at[1].get("snapshots"):
                return False
            src = cb["locals"][cap["place"]["local"]]["ty"] if not cap["place"]["proj"] else {"s": cap["place"].get("ty") or "", "k": "other"}
            cb["locals"].append({"ty": copy.deepcopy(src), "name": None, "arg": False, "mut": False, "snapshot_of": cap["place"]["local"]})
            snap[k] = len(cb["locals"]) - 1
    loff, boff = len(cb["locals"]), len(cb["blocks"])
    poff = len(F.get("promoted") or [])
    defs = _defs(cb)
    nargs = body["arg_count"]
    if len(params) != nargs - 1:
        return False
    rvo = not dest["proj"]
    bad = []

    def reloc(pl):
        if pl["local"] == 1:
            if not _subst_env(pl, ops, cb, defs, snap):
                bad.append(1)
            return
        if pl["local"] == 0 and rvo:
            pl["local"] = dest["local"]
        else:
            pl["local"] += loff
        for e in pl["proj"]:
            if e.get("k") == "index" and isinstance(e.get("local"), int):
                e["local"] += loff

    def reprom(c):
        c["s"] = _PROM.sub(lambda m: "::promoted[%d]" % (int(m.group(1)) + poff), c["s"])

    for l in body["locals"]:
        l["arg"] = False
    for b in body["blocks"]:
        _walk_places(b, reloc)
        _walk_consts(b, reprom)
        _retarget(b["term"], boff)
        if b["term"]["k"] == "return" and not b["cleanup"]:
            if not rvo:
                b["stmts"].append({"k": "assign", "place": copy.deepcopy(dest),
                                   "rv": {"k": "use", "op": {"k": "move", "place": {"local": loff, "proj": [], "ty": body["locals"][0]["ty"]["s"]}}},
                                   "span": span, "inlined_return": K["key"]})
            b["term"] = {"k": "goto", "target": target, "span": b["term"]["span"], "inlined_return": K["key"]}
    if bad:
        return False
    if snap and not agg_at[1].get("snapshots"):
        at = agg_at[0]["stmts"].index(agg_at[1])
        new = []
        for k, L in sorted(snap.items()):
            new.append({"k": "assign", "place": {"local": L, "proj": [], "ty": cb["locals"][L]["ty"]["s"]},
                        "rv": {"k": "use", "op": {"k": "copy", "place": copy.deepcopy(ops[k]["place"])}}, "span": agg_at[1]["span"], "capture_snapshot": K["key"]})
        agg_at[0]["stmts"][at:at] = new
        agg_at[1]["snapshots"] = dict(snap)
    cb["locals"].extend(body["locals"])
    if K.get("promoted"):
        F["promoted"] = list(F.get("promoted") or []) + copy.deepcopy(K["promoted"])
    blk = cb["blocks"][bi]
    for i, a in enumerate(params):
        ty = body["locals"][2 + i]["ty"]
        blk["stmts"].append({"k": "assign", "place": {"local": loff + 2 + i, "proj": [], "ty": ty["s"]},
                             "rv": {"k": "use", "op": copy.deepcopy(a)}, "span": span, "inlined_arg": K["key"]})
    blk["term"] = {"k": "goto", "target": boff, "span": span, "inlined_call": K["key"]}
    cb["blocks"].extend(body["blocks"])
    # `let r = captured_ref; *r = ..` : look through copies of the references made for the captures
    defs2 = _defs(cb)

    def through_ref(pl):
        for _ in range(4):
            if not pl["proj"] or pl["proj"][0]["k"] != "deref":
                return
            x = pl["local"]
            hops = 0
            while hops < 4:
                ds = defs2.get(x, [])
                if len(ds) != 1 or ds[0][0] != "stmt" or cb["locals"][x].get("arg"):
                    return
                rv = ds[0][3]["rv"]
                if rv["k"] == "use" and rv["op"].get("k") in ("copy", "move") and not rv["op"]["place"]["proj"]:
                    x = rv["op"]["place"]["local"]
                    hops += 1
                    continue
                if rv["k"] == "ref":
                    q = rv["place"]
                    pl["local"] = q["local"]
                    pl["proj"] = copy.deepcopy(q["proj"]) + pl["proj"][1:]
                    break
                return
            else:
                return
    for b in cb["blocks"][boff:]:
        _walk_places(b, through_ref)
    for st in blk["stmts"][-len(params):] if params else []:
        _walk_places(st, through_ref)
    return True


def _tuple_params(body, defs, op, n):
    """the n components of the argument tuple of a `call_once(f, (a, b))`"""
    if n == 0:
        return []
    if op.get("k") in ("copy", "move") and not op["place"]["proj"]:
        ds = defs.get(op["place"]["local"], [])
        if len(ds) == 1 and ds[0][0] == "stmt" and ds[0][3]["rv"]["k"] == "aggregate" and ds[0][3]["rv"].get("agg") == "tuple" \
                and len(ds[0][3]["rv"]["ops"]) == n:
            return [copy.deepcopy(o) for o in ds[0][3]["rv"]["ops"]]
        return [{"k": "move", "place": {"local": op["place"]["local"], "proj": [{"k": "field", "i": i, "ty": ""}], "ty": ""}} for i in range(n)]
    return None


def _new_block(F, stmts, term):
    F["body"]["blocks"].append({"stmts": stmts, "term": term, "cleanup": False})
    return len(F["body"]["blocks"]) - 1


def _new_local(F, ty_s, ty=None):
    F["body"]["locals"].append({"ty": ty or {"s": ty_s, "k": "other"}, "name": None, "arg": False, "mut": True})
    return len(F["body"]["locals"]) - 1


def _is_new_code(F, bi, known_fns):
    """flatten is expanded only next to other expanded code (a block that was produced by an expansion feeds it)"""
    return any(b["term"].get("inlined_call") for b in F["body"]["blocks"])


def expand_closures(j, known_closures, known_fns=()):
    fns = {f["key"]: f for f in j["fns"]}
    report = []
    expanded = set()
    for _round in range(5):
        changed = False
        for F in list(j["fns"]):
            body = F.get("body")
            if not body:
                continue
            bi = 0
            while bi < len(body["blocks"]):
                b = body["blocks"][bi]
                t = b["term"]
                bi += 1
                if b["cleanup"] or t["k"] != "call" or "func" not in t or t.get("target") is None:
                    continue
                key = t["func"]["key"]
                span = t["span"]
                defs = _defs(body)
                if key in FN_TRAITS and len(t["args"]) == 2:
                    r = _resolve(body, defs, t["args"][0])
                    if r is None:
                        # a function ITEM handed over as a value (`helper(self, Self::pop_min)` after the helper was
                        # inlined): `pop(&mut self)` is the direct call `Self::pop_min(&mut self)`
                        fd = _resolve_fnitem(body, defs, t["args"][0])
                        if fd is not None and fd.get("key") in fns:
                            params = _tuple_params(body, defs, t["args"][1], (fns[fd["key"]].get("body") or {}).get("arg_count", -1))
                            if params is not None and (fns[fd["key"]].get("body") or {}).get("arg_count", -1) >= 0:
                                t["func"] = copy.deepcopy(fd)
                                t["args"] = params
                                t["inlined_call"] = key
                                report.append("call of the function value %s in %s made direct" % (fd["key"], F["key"]))
                                changed = True
                        continue
                    if r[0] not in fns or not fns[r[0]].get("body"):
                        continue
                    K = fns[r[0]]
                    params = _tuple_params(body, defs, t["args"][1], K["body"]["arg_count"] - 1)
                    if params is None:
                        continue
                    if _splice_closure(F, bi - 1, K, r[2], params, t["dest"], t["target"], span):
                        report.append("call of the closure %s inlined in %s" % (K["key"], F["key"]))
                        expanded.add(K["key"])
                        changed = True
                    continue
                if key == "std::option::Option::flatten" and len(t["args"]) == 1 and t["args"][0].get("k") in ("copy", "move") and not t["args"][0]["place"]["proj"] \
                        and F["key"] not in known_closures and _is_new_code(F, bi - 1, known_fns):
                    # match x { Some(inner) => inner, None => None }
                    R = t["args"][0]["place"]["local"]
                    disc = _new_local(F, "isize")
                    none_b = _new_block(F, [{"k": "assign", "place": copy.deepcopy(t["dest"]), "rv": {"k": "aggregate", "agg": "adt", "path": "std::option::Option",
                                                                                                      "variant": "None", "fields": [], "ops": []}, "span": span}],
                                        {"k": "goto", "target": t["target"], "span": span})
                    some_b = _new_block(F, [{"k": "assign", "place": copy.deepcopy(t["dest"]),
                                             "rv": {"k": "use", "op": {"k": "move", "place": {"local": R, "proj": [
                                                 {"k": "downcast", "variant": 1, "name": "Some"},
                                                 {"k": "field", "i": 0, "name": "0", "of": "std::option::Option", "ty": ""}], "ty": ""}}}, "span": span}],
                                        {"k": "goto", "target": t["target"], "span": span})
                    b["stmts"].append({"k": "assign", "place": {"local": disc, "proj": [], "ty": "isize"},
                                       "rv": {"k": "discriminant", "place": {"local": R, "proj": [], "ty": ""}, "path": "std::option::Option", "variants": OPTION_VARIANTS},
                                       "span": span})
                    b["term"] = {"k": "switch", "discr": {"k": "move", "place": {"local": disc, "proj": [], "ty": "isize"}},
                                 "targets": [[1, some_b]], "otherwise": none_b, "span": span, "inlined_call": key}
                    report.append("flatten expanded in %s" % F["key"])
                    changed = True
                    continue
                kind = COMBINATORS.get(key)
                if not kind:
                    continue
                cl_op = t["args"][-1]
                r = _resolve(body, defs, cl_op)
                if r is None or r[0] in known_closures or r[0] not in fns or not fns[r[0]].get("body"):
                    continue
                K = fns[r[0]]
                if K["body"]["arg_count"] != (1 if kind == "then" else 2):
                    continue
                recv = t["args"][0]
                if kind == "then":
                    # if cond { Some(f()) } else { None }
                    if recv.get("k") not in ("copy", "move") or recv["place"]["proj"]:
                        continue
                    C = recv["place"]["local"]
                    dest, target = t["dest"], t["target"]
                    tmp = _new_local(F, K["body"]["locals"][0]["ty"]["s"], K["body"]["locals"][0]["ty"])
                    none_b = _new_block(F, [{"k": "assign", "place": copy.deepcopy(dest), "rv": {"k": "aggregate", "agg": "adt", "path": "std::option::Option",
                                                                                               "variant": "None", "fields": [], "ops": []}, "span": span}],
                                        {"k": "goto", "target": target, "span": span})
                    fin = _new_block(F, [{"k": "assign", "place": copy.deepcopy(dest), "rv": {"k": "aggregate", "agg": "adt", "path": "std::option::Option", "variant": "Some",
                                                                                           "fields": [0], "ops": [{"k": "move", "place": {"local": tmp, "proj": [], "ty": ""}}]},
                                          "span": span}], {"k": "goto", "target": target, "span": span})
                    some_b = _new_block(F, [], {"k": "goto", "target": fin, "span": span})
                    if not _splice_closure(F, some_b, K, r[2], [], {"local": tmp, "proj": [], "ty": ""}, fin, span):
                        continue
                    b["term"] = {"k": "switch", "discr": {"k": "move", "place": {"local": C, "proj": [], "ty": "bool"}},
                                 "targets": [[0, none_b]], "otherwise": some_b, "span": span, "inlined_call": key}
                    report.append("then(.., %s) expanded in %s" % (K["key"], F["key"]))
                    expanded.add(K["key"])
                    changed = True
                    continue
                if recv.get("k") not in ("copy", "move") or recv["place"]["proj"]:
                    continue
                R = recv["place"]["local"]
                dest, target = t["dest"], t["target"]
                item_ty = K["body"]["locals"][2]["ty"]
                if kind == "for_each":
                    # loop { match Iterator::next(&mut it) { Some(x) => f(x), None => break } }
                    opt = _new_local(F, "std::option::Option<%s>" % item_ty["s"])
                    ref = _new_local(F, "&mut " + body["locals"][R]["ty"]["s"])
                    disc = _new_local(F, "isize")
                    x = _new_local(F, item_ty["s"], item_ty)
                    unit = _new_local(F, "()")
                    head = _new_block(F, [], None)
                    sw = _new_block(F, [], None)
                    some = _new_block(F, [], None)
                    body["blocks"][head]["stmts"] = [{"k": "assign", "place": {"local": ref, "proj": [], "ty": ""},
                                                      "rv": {"k": "ref", "mut": True, "place": {"local": R, "proj": [], "ty": ""}}, "span": span}]
                    nf = copy.deepcopy(t["func"])
                    nf.update({"key": "std::iter::Iterator::next", "path": "std::iter::Iterator::next", "name": "next", "trait": "std::iter::Iterator",
                               "self_ty": body["locals"][R]["ty"], "gargs": [body["locals"][R]["ty"]], "preds": [], "unsafe": False})
                    nf.pop("resolved", None)
                    nf.pop("impl_self", None)
                    body["blocks"][head]["term"] = {"k": "call", "func": nf, "args": [{"k": "move", "place": {"local": ref, "proj": [], "ty": ""}}],
                                                    "dest": {"local": opt, "proj": [], "ty": ""}, "target": sw, "unwind": t.get("unwind", "continue"), "span": span}
                    body["blocks"][sw]["stmts"] = [{"k": "assign", "place": {"local": disc, "proj": [], "ty": "isize"},
                                                    "rv": {"k": "discriminant", "place": {"local": opt, "proj": [], "ty": ""}, "path": "std::option::Option",
                                                           "variants": OPTION_VARIANTS}, "span": span}]
                    body["blocks"][sw]["term"] = {"k": "switch", "discr": {"k": "move", "place": {"local": disc, "proj": [], "ty": "isize"}},
                                                  "targets": [[1, some]], "otherwise": target, "span": span}
                    body["blocks"][some]["stmts"] = [{"k": "assign", "place": {"local": x, "proj": [], "ty": item_ty["s"]},
                                                      "rv": {"k": "use", "op": {"k": "move", "place": {"local": opt, "proj": [
                                                          {"k": "downcast", "variant": 1, "name": "Some"},
                                                          {"k": "field", "i": 0, "name": "0", "of": "std::option::Option", "ty": item_ty["s"]}], "ty": item_ty["s"]}}},
                                                      "span": span}]
                    body["blocks"][some]["term"] = {"k": "goto", "target": head, "span": span}
                    ok = _splice_closure(F, some, K, r[2], [{"k": "move", "place": {"local": x, "proj": [], "ty": item_ty["s"]}}],
                                         {"local": unit, "proj": [], "ty": "()"}, head, span)
                    if not ok:
                        del body["blocks"][head:]
                        continue
                    b["stmts"].append({"k": "assign", "place": copy.deepcopy(dest), "rv": {"k": "aggregate", "agg": "tuple", "ops": []}, "span": span})
                    b["term"] = {"k": "goto", "target": head, "span": span, "inlined_call": key}
                elif kind in ("r_and_then", "r_map"):
                    # match recv { Ok(x) => f(x) / Ok(f(x)), Err(e) => Err(e) }
                    disc = _new_local(F, "isize")
                    x = _new_local(F, item_ty["s"], item_ty)
                    RP = "std::result::Result"
                    err_b = _new_block(F, [{"k": "assign", "place": copy.deepcopy(dest), "rv": {
                        "k": "aggregate", "agg": "adt", "path": RP, "variant": "Err", "fields": [0],
                        "ops": [{"k": "move", "place": {"local": R, "proj": [{"k": "downcast", "variant": 1, "name": "Err"},
                                                                              {"k": "field", "i": 0, "name": "0", "of": RP, "ty": ""}], "ty": ""}}]}, "span": span}],
                                       {"k": "goto", "target": target, "span": span})
                    ok_b = _new_block(F, [], {"k": "goto", "target": target, "span": span})
                    fin = None
                    if kind == "r_and_then":
                        res_dest = dest
                    else:
                        tmp = _new_local(F, K["body"]["locals"][0]["ty"]["s"], K["body"]["locals"][0]["ty"])
                        res_dest = {"local": tmp, "proj": [], "ty": ""}
                        fin = _new_block(F, [{"k": "assign", "place": copy.deepcopy(dest), "rv": {"k": "aggregate", "agg": "adt", "path": RP, "variant": "Ok",
                                                                                               "fields": [0], "ops": [{"k": "move", "place": {"local": tmp, "proj": [], "ty": ""}}]},
                                              "span": span}], {"k": "goto", "target": target, "span": span})
                    body["blocks"][ok_b]["stmts"] = [{"k": "assign", "place": {"local": x, "proj": [], "ty": item_ty["s"]},
                                                      "rv": {"k": "use", "op": {"k": "move", "place": {"local": R, "proj": [
                                                          {"k": "downcast", "variant": 0, "name": "Ok"},
                                                          {"k": "field", "i": 0, "name": "0", "of": RP, "ty": item_ty["s"]}], "ty": item_ty["s"]}}},
                                                      "span": span}]
                    ok = _splice_closure(F, ok_b, K, r[2], [{"k": "move", "place": {"local": x, "proj": [], "ty": item_ty["s"]}}],
                                         res_dest, fin if fin is not None else target, span)
                    if not ok:
                        continue
                    b["stmts"].append({"k": "assign", "place": {"local": disc, "proj": [], "ty": "isize"},
                                       "rv": {"k": "discriminant", "place": {"local": R, "proj": [], "ty": ""}, "path": RP, "variants": RESULT_VARIANTS},
                                       "span": span})
                    b["term"] = {"k": "switch", "discr": {"k": "move", "place": {"local": disc, "proj": [], "ty": "isize"}},
                                 "targets": [[0, ok_b]], "otherwise": err_b, "span": span, "inlined_call": key}
                else:
                    # match recv { None => default / None, Some(x) => .. f(x) .. }
                    disc = _new_local(F, "isize")
                    x = _new_local(F, item_ty["s"], item_ty)
                    none_b = _new_block(F, [], {"k": "goto", "target": target, "span": span})
                    some_b = _new_block(F, [], {"k": "goto", "target": target, "span": span})
                    fin = None
                    if kind == "map_or":
                        body["blocks"][none_b]["stmts"] = [{"k": "assign", "place": copy.deepcopy(dest), "rv": {"k": "use", "op": copy.deepcopy(t["args"][1])}, "span": span}]
                        res_dest = dest
                    elif kind == "and_then":
                        body["blocks"][none_b]["stmts"] = [{"k": "assign", "place": copy.deepcopy(dest), "rv": {"k": "aggregate", "agg": "adt", "path": "std::option::Option",
                                                                                                         "variant": "None", "fields": [], "ops": []}, "span": span}]
                        res_dest = dest
                    else:  # map
                        body["blocks"][none_b]["stmts"] = [{"k": "assign", "place": copy.deepcopy(dest), "rv": {"k": "aggregate", "agg": "adt", "path": "std::option::Option",
                                                                                                         "variant": "None", "fields": [], "ops": []}, "span": span}]
                        tmp = _new_local(F, K["body"]["locals"][0]["ty"]["s"], K["body"]["locals"][0]["ty"])
                        res_dest = {"local": tmp, "proj": [], "ty": ""}
                        fin = _new_block(F, [{"k": "assign", "place": copy.deepcopy(dest), "rv": {"k": "aggregate", "agg": "adt", "path": "std::option::Option", "variant": "Some",
                                                                                               "fields": [0], "ops": [{"k": "move", "place": {"local": tmp, "proj": [], "ty": ""}}]},
                                              "span": span}], {"k": "goto", "target": target, "span": span})
                    body["blocks"][some_b]["stmts"] = [{"k": "assign", "place": {"local": x, "proj": [], "ty": item_ty["s"]},
                                                        "rv": {"k": "use", "op": {"k": "move", "place": {"local": R, "proj": [
                                                            {"k": "downcast", "variant": 1, "name": "Some"},
                                                            {"k": "field", "i": 0, "name": "0", "of": "std::option::Option", "ty": item_ty["s"]}], "ty": item_ty["s"]}}},
                                                        "span": span}]
                    ok = _splice_closure(F, some_b, K, r[2], [{"k": "move", "place": {"local": x, "proj": [], "ty": item_ty["s"]}}],
                                         res_dest, fin if fin is not None else target, span)
                    if not ok:
                        continue
                    b["stmts"].append({"k": "assign", "place": {"local": disc, "proj": [], "ty": "isize"},
                                       "rv": {"k": "discriminant", "place": {"local": R, "proj": [], "ty": ""}, "path": "std::option::Option", "variants": OPTION_VARIANTS},
                                       "span": span})
                    b["term"] = {"k": "switch", "discr": {"k": "move", "place": {"local": disc, "proj": [], "ty": "isize"}},
                                 "targets": [[1, some_b]], "otherwise": none_b, "span": span, "inlined_call": key}
                report.append("%s(.., %s) expanded in %s" % (kind, K["key"], F["key"]))
                expanded.add(K["key"])
                changed = True
        if not changed:
            break
    if not expanded:
        return report
    # a closure that is no longer handed to anything is gone (its nested closures now belong to where it was inlined)
    still = set()
    for f in j["fns"]:
        body = f.get("body")
        if not body:
            continue
        for b in body["blocks"]:
            t = b["term"]
            if t["k"] != "call":
                continue
            for a in t["args"]:
                if a.get("k") in ("copy", "move") and not a["place"]["proj"]:
                    ty = body["locals"][a["place"]["local"]]["ty"]
                    if ty.get("k") == "closure":
                        still.add(ty.get("def"))
                    elif ty.get("k") == "ref" and (ty.get("inner") or {}).get("k") == "closure":
                        still.add(ty["inner"].get("def"))
    drop = {k for k in expanded if k not in still}
    if drop:
        for f in j["fns"]:
            if f.get("kind") == "Closure" and f.get("parent_fn") in drop:
                p = f["parent_fn"]
                while p in drop and p in fns:
                    p = fns[p].get("parent_fn")
                f["parent_fn"] = p
        j["fns"] = [f for f in j["fns"] if f["key"] not in drop]
        report.append("closures dropped after expansion: %s" % sorted(drop))
    return report
