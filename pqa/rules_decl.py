"""Declarative rules: who-may-call / footprint / forwarding / inventory rules that need the
type-checked call graph and value provenance but no path-sensitive reasoning beyond must-pass."""
import json

from .core import walk, strip, term_str, component, const_int, STORE, foreign_expansion
from .fx import MAP_KEYMUT, HASH_TRAITS
from .rules_iter import ret_term, unsite, impl_for, method

PQ = "priority_queue::PriorityQueue"
DPQ = "double_priority_queue::DoublePriorityQueue"
QUEUES = (PQ, DPQ)
QNAME = {PQ: "PriorityQueue", DPQ: "DoublePriorityQueue"}


def root_fn(prog, f):
    while f.is_closure:
        f = prog.fn(f.parent_fn)
    return f


def must_pass(fn, blocks):
    """every normal path from entry to a Return enters one of `blocks`"""
    blocks = set(blocks)
    if not blocks:
        return False, [0]
    if 0 in blocked_reach(fn, blocks):
        pass
    if 0 in blocks:
        return True, None
    p = fn.cfg.escape_path(0, blocks)
    if not fn.cfg.succ[0] and 0 in fn.cfg.returns:
        return False, [0]
    return (p is None), p


def blocked_reach(fn, blocks):
    return set()


def is_param(t, idx=None):
    t = strip(t)
    if t[0] == "phi":
        # a `mut` parameter never re-assigned still shows as param; re-assigned ones are not plain
        return False
    return t[0] == "param" and (idx is None or t[2] == idx)


def param_index(t):
    t = strip(t)
    return t[2] if t[0] == "param" else None


def ok_only_after_success(view, f, res_blocks):
    """path by path: an `Ok(..)` built by f itself is returned only on paths that took the success edge of every fallible
    call (blocks res_blocks) they made.  -> None, or the description of an offending path"""
    from .rules_iter import _paths
    from .core import edge_presence
    paths = _paths(f)
    if paths is None:
        return "the method has a loop: not decided"
    for pth in paths:
        executed = [b2 for b2 in pth if b2 in res_blocks]
        established = set()
        last0 = None
        for a, b2 in zip(pth, pth[1:]):
            ta = f.term(a)
            if ta["k"] == "switch" and len(f.cfg.succ[a]) >= 2:
                d = strip(view.vp.operand(f, ta["discr"]))
                if d[0] == "discr" and edge_presence(d, ta, b2) == "present":
                    for x in walk(d):
                        if x[0] == "call" and len(x) > 3 and isinstance(x[3], tuple) and x[3][0] == f.key and x[3][1] in res_blocks:
                            established.add(x[3][1])
        for b2 in pth:
            for st in f.blocks[b2]["stmts"]:
                if st["k"] == "assign" and st["place"]["local"] == 0 and not st["place"]["proj"]:
                    last0 = st["rv"]
        if last0 is not None and last0["k"] == "aggregate" and last0.get("variant") == "Ok":
            missing = [b2 for b2 in executed if b2 not in established]
            if missing:
                return "returns Ok(..) on the path %s although the reservation at line %d was not seen to succeed on it" % (
                    "->".join("bb%d" % x for x in pth[:14]), f.term(missing[0])["span"]["line"])
    return None


def _result_rebuilt(r, site):
    """r returns what the fallible call at `site` returned, re-wrapped: `x?; Ok(())`, `match x { Ok(v) => Ok(v), Err(e) => Err(e) }`"""
    def is_call(x):
        x = strip(x)
        return x[0] == "call" and len(x) > 3 and x[3] == site

    def payload(x, variant):
        x = strip(x)
        return x[0] == "field" and x[2] == "0" and strip(x[1])[0] == "downcast" and strip(x[1])[2] == variant and is_call(strip(x[1])[1])

    if r[0] != "phi":
        return False
    kinds = set()
    for a in r[4]:
        a = strip(a)
        if a[0] == "adt" and a[1] == "std::result::Result" and a[2] == "Ok" and len(a[3]) == 1 and (strip(a[3][0]) == ("tuple", ()) or payload(a[3][0], "Ok")):
            kinds.add("ok")
        elif a[0] == "adt" and a[1] == "std::result::Result" and a[2] == "Err" and len(a[3]) == 1 and payload(a[3][0], "Err"):
            kinds.add("err")
        elif a[0] == "call" and a[1] == "std::ops::FromResidual::from_residual" and len(a[2]) == 1:
            x = strip(a[2][0])
            if x[0] == "field" and x[2] == "0" and strip(x[1])[0] == "downcast" and strip(x[1])[2] == "Break":
                br = strip(strip(x[1])[1])
                if br[0] == "call" and br[1] == "std::ops::Try::branch" and len(br[2]) == 1 and is_call(br[2][0]):
                    kinds.add("err")
                    continue
            return False
        else:
            return False
    return kinds == {"ok", "err"}


def forwards(view, fn, callee_key, arg_params=None, recv_field=None):
    """fn's body is a single crate call `callee(self[.field], params...)` whose result is returned"""
    calls = [(b, t) for b, t in fn.calls() if (t.get("func") or {}).get("key") not in ("std::ops::Try::branch", "std::ops::FromResidual::from_residual")]
    if len(calls) != 1 or fn.cfg.loops:
        return False, "body is not a single call (%d calls)" % len(calls)
    bb, t = calls[0]
    ci = view.fx.call_info(fn, bb)
    tgt = ci.local_callee or ci.key
    if tgt != callee_key:
        return False, "calls %s, expected %s" % (tgt, callee_key)
    args = view.fx.args_vp(ci)
    if recv_field is not None:
        a0 = strip(args[0])
        if not (a0[0] == "field" and (a0[2] == recv_field or (isinstance(recv_field, tuple) and a0[2] in recv_field)) and is_param(a0[1], 1)):
            return False, "receiver is %s, expected self.%s" % (term_str(args[0]), recv_field)
    if arg_params is not None:
        got = [param_index(a) for a in args[1:]]
        if got != list(arg_params):
            return False, "arguments %s are not the parameters %s unmodified" % ([term_str(a) for a in args[1:]], arg_params)
    r = ret_term(view, fn)
    if fn.j.get("output", {}).get("s") not in ("()",) and not (r[0] == "call" and r[3] == (fn.key, bb)):
        # `x?; Ok(())` / a match that rebuilds each variant: still the call's result, provided `Ok` is returned only on
        # the call's success edge
        if not (_result_rebuilt(r, (fn.key, bb)) and ok_only_after_success(view, fn, {bb}) is None):
            return False, "result of the call is not what is returned (%s)" % term_str(r)
    return True, "forwards to %s" % callee_key


# ------------------------------------------------------------------------------------------
# R-NOHASH (C18)
# ------------------------------------------------------------------------------------------
HASH_FORBIDDEN_NAMES = {"hasher", "raw_entry_v1", "raw_entry_mut_v1", "from_hash", "from_key_hashed_nocheck",
                        "from_hash_full", "hash_one", "build_hasher", "raw_entry", "raw_entry_mut",
                        "get_index_of_hashed", "with_hasher_in"}


def hash_use(t, fn):
    """call terminator -> reason string if it looks at a hash / hasher, else None"""
    if "func" not in t:
        return None
    f = t["func"]
    tr = f.get("trait")
    if tr in HASH_TRAITS:
        return "calls %s (method of %s)" % (f["key"], tr)
    res = f.get("resolved") or {}
    if f["path"].startswith(("std::hash::", "core::hash::")) or res.get("key", "").startswith(("std::hash::", "core::hash::")):
        return "calls %s" % f["key"]
    if f["name"] in HASH_FORBIDDEN_NAMES and f["krate"] in ("indexmap", "hashbrown", "std", "core"):
        return "calls %s::%s (exposes the hasher / a raw hash)" % (f["krate"], f["key"])
    if "raw_entry" in f["key"] or "RawEntry" in f["key"]:
        return "uses the raw-entry API (%s)" % f["key"]
    return None


def r_nohash(ctx, view):
    prog = view.prog
    ctx.cur = view
    n = 0
    for f in sorted(prog.fns.values(), key=lambda f: f.key):
        if f.j.get("auto_derived"):
            continue
        bad = []
        for bb, t in f.calls():
            if t["span"]["exp"] and f.j.get("auto_derived"):
                continue
            why = hash_use(t, f)
            if why:
                bad.append("%s at line %d" % (why, t["span"]["line"]))
            # values of the hasher type flow only into constructors
            for ai, a in enumerate(t["args"]):
                ty = a["place"]["ty"] if a["k"] in ("copy", "move") else a.get("ty", "")
                if ty in hasher_params(f) and "func" in t:
                    nm = t["func"]["name"]
                    if nm not in ("with_capacity_and_hasher", "with_hasher"):
                        bad.append("a value of the hasher type %s is passed to %s at line %d" % (ty, t["func"]["key"], t["span"]["line"]))
        n += 1
        ctx.ob("R-NOHASH", f.key, not bad, f.loc(), "; ".join(bad) if bad else "no call resolves to Hash/Hasher/BuildHasher or exposes the hasher")
    ctx.floor("R-NOHASH", n, 200)
    # the hasher type parameter appears in no comparison: by typing, H has only the BuildHasher (+Default) bound
    for im in prog.impls:
        for p in im["preds"]:
            if p["kind"] == "trait" and p["self"].get("k") == "param" and p["self"]["name"].startswith("H"):
                tr = p["trait"]
                # bounds that would let the crate compare or inspect the hasher value itself
                ok = tr not in ("std::cmp::PartialEq", "std::cmp::Eq", "std::cmp::PartialOrd", "std::cmp::Ord", "std::hash::Hash",
                                "std::any::Any", "std::convert::AsRef", "std::ops::Deref")
                if not ok:
                    ctx.ob("R-NOHASH", "bound:%s:%s" % (im["path"], tr), False,
                           "%s:%d" % (im["span"]["file"], im["span"]["line"]),
                           "hasher parameter carries the bound %s, which lets the crate observe it" % tr)


def hasher_params(f):
    out = set()
    for p in f.j.get("preds", []) if not f.is_closure else []:
        if p["kind"] == "trait" and p["trait"] == "std::hash::BuildHasher" and p["self"].get("k") == "param":
            out.add(p["self"]["name"])
    return out


# ------------------------------------------------------------------------------------------
# R-EQFOOT (C14)
# ------------------------------------------------------------------------------------------
def r_eqfoot(ctx, view):
    prog = view.prog
    ctx.cur = view
    PEQ = "std::cmp::PartialEq"
    # Store::eq == IndexMap::eq(self.map, other.map)
    im = [i for i in prog.impls if i.get("trait") == PEQ and i["self_desc"] == STORE]
    ctx.anchor("impl PartialEq for Store", len(im) == 1)
    im = im[0]
    names = [it["name"] for it in im["items"] if it["kind"] == "Fn"]
    ctx.ob("R-EQFOOT", "Store:only-eq-defined", names == ["eq"], "%s:%d" % (im["span"]["file"], im["span"]["line"]),
           "impl defines %s; `ne` must stay the negation of `eq`" % names)
    eq = method(prog, im, "eq")
    ctx.anchor("Store::eq", eq is not None)
    r = ret_term(view, eq)
    ok = False
    why = "result is %s" % term_str(r)
    if r[0] == "call" and r[1] in ("std::cmp::PartialEq::eq",) and len(r[2]) == 2:
        ca, cb = component(r[2][0]), component(r[2][1])
        if ca and cb and ca[0] == "map" and cb[0] == "map" and is_param(ca[1], 1) and is_param(cb[1], 2):
            # resolved callee must be indexmap's impl
            bb = r[3][1]
            res = eq.term(bb)["func"].get("resolved") or {}
            ok = res.get("krate") == "indexmap" and len(list(eq.calls())) == 1 and not eq.cfg.loops
            why = "eq = (self.map == other.map) resolved to %s" % res.get("key")
    ctx.ob("R-EQFOOT", "Store:eq-is-map-equality", ok, eq.loc(),
           why + "; equality must be IndexMap's set equality on the two `map` fields and read nothing else")
    # footprint: no read of heap / qp / size / capacity / hasher in eq
    foot = set()
    for f in prog.family(eq.key):
        for b in f.blocks:
            for s in b["stmts"]:
                if s["k"] == "assign":
                    for x in walk(view.vp.rvalue(f, s["rv"])):
                        c = component(x)
                        if c:
                            foot.add(c[0])
            t = b["term"]
            if t["k"] == "call":
                for a in t["args"]:
                    for x in walk(view.vp.operand(f, a)):
                        c = component(x)
                        if c:
                            foot.add(c[0])
    ctx.ob("R-EQFOOT", "Store:eq-footprint", foot <= {"map"}, eq.loc(), "eq reads components %s (must be {map})" % sorted(foot))
    # queues delegate
    for Q in QUEUES:
        qi = [i for i in prog.impls if i.get("trait") == PEQ and i["self_desc"] == Q]
        ctx.anchor("impl PartialEq for %s" % Q, len(qi) == 1)
        qi = qi[0]
        names = [it["name"] for it in qi["items"] if it["kind"] == "Fn"]
        qeq = method(prog, qi, "eq")
        ok, why = False, "no eq"
        if qeq is not None:
            r = ret_term(view, qeq)
            why = "result is %s" % term_str(r)
            if r[0] == "call" and len(r[2]) == 2 and len(list(qeq.calls())) == 1 and not qeq.cfg.loops:
                a, b = strip(r[2][0]), strip(r[2][1])
                bb = r[3][1]
                ci = view.fx.call_info(qeq, bb)
                if (a[0] == "field" and a[2] == "store" and is_param(a[1], 1) and b[0] == "field" and b[2] == "store"
                        and is_param(b[1], 2) and ci.local_callee == eq.key):
                    ok = True
                    why = "eq = (self.store == other.store)"
        ctx.ob("R-EQFOOT", "%s:eq-delegates-to-store" % QNAME[Q], ok and names == ["eq"], qeq.loc() if qeq else "", why)
    # Clone: derived (structural) for Store and both queues, or field-complete
    CL = "std::clone::Clone"
    for T in (STORE,) + QUEUES:
        ci = [i for i in prog.impls if i.get("trait") == CL and i["self_desc"] == T]
        ctx.anchor("impl Clone for %s" % T, len(ci) == 1)
        ci = ci[0]
        loc = "%s:%d" % (ci["span"]["file"], ci["span"]["line"])
        if ci["auto_derived"]:
            ctx.ob("R-EQFOOT", "%s:clone-structural" % T.split("::")[-1], True, loc, "#[derive(Clone)]: every field is cloned")
            continue
        fields = [f["name"] for f in prog.adts[T]["variants"][0]["fields"]]
        for it in ci["items"]:
            if it["kind"] != "Fn":
                continue
            m = prog.fn(it["key"])
            ok, why = manual_clone_ok(view, m, T, fields)
            ctx.ob("R-EQFOOT", "%s:clone-structural:%s" % (T.split("::")[-1], it["name"]), ok, m.loc(), why)
    # owning field types
    for T in (STORE,) + QUEUES:
        adt = prog.adts[T]
        for f in adt["variants"][0]["fields"]:
            bad = [x for x in ty_walk(f["ty"]) if x.get("k") in ("ref", "ptr") or x.get("path", "").split("::")[-1] in
                   ("Rc", "Arc", "Cell", "RefCell", "Mutex", "RwLock", "UnsafeCell", "NonNull", "Weak")]
            ctx.ob("R-EQFOOT", "%s.%s:owning-type" % (T.split("::")[-1], f["name"]), not bad,
                   "%s:%d" % (adt["span"]["file"], adt["span"]["line"]),
                   "field type %s %s" % (f["ty"]["s"], "owns its data" if not bad else "shares data through " + bad[0]["s"]))
    # Eq marker impls exist (reflexivity is then a claim of the types)
    for T in (STORE,) + QUEUES:
        e = [i for i in prog.impls if i.get("trait") == "std::cmp::Eq" and i["self_desc"] == T]
        ctx.ob("R-EQFOOT", "%s:impl-Eq" % T.split("::")[-1], len(e) == 1, "", "Eq is declared once")


def ty_walk(t):
    yield t
    for k in ("inner",):
        if k in t:
            for x in ty_walk(t[k]):
                yield x
    for k in ("args", "elems"):
        for a in t.get(k, []) or []:
            if isinstance(a, dict) and "k" in a and a["k"] != "const":
                for x in ty_walk(a):
                    yield x


def manual_clone_ok(view, m, T, fields):
    """hand-written Clone method: `clone` must build T from clones of every field of self;
    `clone_from` must (re)assign every field of self from the same field of the source"""
    if m.name == "clone":
        r = ret_term(view, m)
        if r[0] == "adt" and r[1] == T and len(r[3]) == len(fields):
            for i, fname in enumerate(fields):
                x = r[3][i]
                src = None
                if x[0] == "call" and x[1].endswith("clone") and x[2]:
                    src = strip(x[2][0])
                elif x[0] == "field":
                    src = x  # Copy field
                if not (src and src[0] == "field" and src[2] == fname and is_param(src[1], 1)):
                    return False, "field `%s` of the clone is %s, not a clone of self.%s" % (fname, term_str(x), fname)
            return True, "clone builds every field from a clone of the same field"
        return False, "clone does not return a %s literal (%s)" % (T, term_str(r)[:120])
    if m.name == "clone_from":
        written = set()
        where = {}
        for f in view.prog.family(m.key):
            for bi, b in enumerate(f.blocks):
                if b["cleanup"]:
                    continue
                for s in b["stmts"]:
                    if s["k"] == "assign" and s["place"]["proj"]:
                        t = strip_fields_to_self(view.vp.place(f, s["place"]))
                        if t:
                            written.add(t)
                            if f is m:
                                where.setdefault(t, set()).add(bi)
                t = b["term"]
                if t["k"] == "call" and "func" in t and t["func"]["name"] in ("clone_from", "clone_into", "clone_from_slice"):
                    x = strip_fields_to_self(view.vp.operand(f, t["args"][0]))
                    if x:
                        written.add(x)
                        if f is m:
                            where.setdefault(x, set()).add(bi)
        missing = [f for f in fields if f not in written]
        if missing:
            return False, "clone_from leaves field(s) %s of the destination untouched" % missing
        # ... and on EVERY path: a clone_from that returns early (say, when the two already compare equal) leaves a
        # destination that is not a structural copy of its source (equality is coarser than the representation)
        for fname in fields:
            if fname in where and 0 not in where[fname]:
                esc = m.cfg.escape_path(0, where[fname])
                if esc is not None:
                    return False, "clone_from can return without rewriting field `%s` (path %s)" % (fname, esc)
        return True, "clone_from rewrites every field on every path"
    return False, "unrecognised method %s in a hand-written Clone impl" % m.name


def strip_fields_to_self(t):
    """self.<f>[...] -> f"""
    t = strip(t)
    last = None
    while t[0] in ("field", "index", "deref", "ref"):
        if t[0] == "field":
            last = t[2]
        t = strip(t[1]) if t[0] != "field" else strip(t[1])
    if t[0] == "param" and t[2] == 1:
        return last
    return None


# ------------------------------------------------------------------------------------------
# R-RESET (C16)
# ------------------------------------------------------------------------------------------
def reset_events(view, fn):
    """-> {comp: [(bb, order, how)]} of events that empty a component of self"""
    out = {}
    order = 0
    for ev in view.fx.events_inl(fn):
        order += 1
        comp = ev.get("comp")
        if comp is None:
            continue
        root = ev.get("root")
        if root is not None and not is_param(root, 1):
            continue
        how = None
        if ev["kind"] == "tw":
            h = ev["how"]
            if h == "call:clear":
                how = "clear()"
            elif h == "call:truncate" and ev.get("idx") is not None and const_int(strip(ev["idx"])) == 0:
                how = "truncate(0)"
            elif h == "call:drain":
                how = "drain(..)"
            elif h == "whole":
                v = ev["val"]
                if comp == "size" and const_int(strip(v)) == 0:
                    how = "= 0"
                elif comp in ("heap", "qp") and v[0] == "call" and v[1].split("::")[-1] in ("new", "with_capacity", "default"):
                    how = "= " + v[1]
        elif ev["kind"] == "mw" and ev.get("mclass") == "clear":
            how = ev["name"] + "()"
        if how:
            out.setdefault(comp, []).append((ev["bb"], order, how, ev))
    return out


def r_reset(ctx, view, only=None):
    prog = view.prog
    ctx.cur = view
    if only:
        n0 = len(ctx.obs)
        r_reset(ctx, view)
        ctx.obs[n0:] = [o for o in ctx.obs[n0:] if any(("::%s" % w) in o.key or o.key.startswith("Drain") for w in only)]
        return
    for name in ("drain", "clear"):
        f = prog.fn("store::Store::" + name)
        ctx.anchor("Store::" + name, f is not None)
        rs = reset_events(view, f)
        for comp in ("heap", "qp", "size", "map"):
            evs = rs.get(comp, [])
            ok, path = must_pass(f, [e[0] for e in evs]) if evs else (False, None)
            ctx.ob("R-RESET", "Store::%s:%s" % (name, comp), ok, f.loc(),
                   ("`%s` is emptied on every path by %s" % (comp, evs[0][2])) if ok else
                   "`%s` is not emptied on every normal path of Store::%s (path avoiding it: %s)" % (comp, name, path))
        if name == "drain":
            # eager: the three table resets precede the creation of the inner draining iterator,
            # and that iterator drains the full range
            mev = rs.get("map", [])
            if mev:
                m = mev[0]
                for comp in ("heap", "qp", "size"):
                    evs = rs.get(comp, [])
                    # executed before the inner drain on every path: in an earlier dominating block, or earlier in its block
                    ok = bool(evs) and any((e[0] != m[0] and f.cfg.dominates(e[0], m[0])) or (e[0] == m[0] and e[1] < m[1]) for e in evs)
                    ctx.ob("R-RESET", "Store::drain:%s-before-inner-drain" % comp, ok, f.loc(),
                           "reset of `%s` must dominate `map.drain(..)` so that nothing is deferred to the iterator's destructor" % comp)
                args = view.fx.args_vp(m[3]["ci"])
                full = len(args) >= 2 and "RangeFull" in term_str(args[1])
                ctx.ob("R-RESET", "Store::drain:full-range", full, f.loc(), "map.drain(%s)" % (term_str(args[1]) if len(args) > 1 else "?"))
            # the returned iterator wraps exactly that inner drain
            r = ret_term(view, f)
            ok = r[0] == "adt" and r[1].endswith("Drain") and len(r[3]) == 1 and r[3][0][0] == "call" and r[3][0][1].endswith("::drain")
            ctx.ob("R-RESET", "Store::drain:returns-inner-drain", ok, f.loc(), "returns %s" % term_str(r))
    # Drain type itself must not carry deferred work
    dr = [i for i in prog.impls if i.get("trait") == "std::ops::Drop" and i["self_desc"].endswith("core_iterators::Drain")]
    ctx.ob("R-RESET", "Drain:no-Drop-impl", not dr, "", "Drain has no destructor of its own: nothing is deferred to it")
    # public drain / clear delegate and do nothing else
    for Q in QUEUES:
        for name in ("drain", "clear"):
            f = prog.fn("%s::%s" % (Q, name))
            ctx.anchor("%s::%s" % (Q, name), f is not None)
            ok, why = forwards(view, f, "store::Store::" + name, arg_params=[], recv_field="store")
            ctx.ob("R-RESET", "%s::%s:delegates" % (QNAME[Q], name), ok, f.loc(), why)
    ctx.floor("R-RESET", ctx.count("R-RESET", view.config), 16)


# ------------------------------------------------------------------------------------------
# R-CAPFWD (C17)
# ------------------------------------------------------------------------------------------
CAP_METHODS = ("reserve", "reserve_exact", "try_reserve", "try_reserve_exact", "shrink_to_fit")


def result_is_used(f, local):
    """is the value in `local` read by some statement or call (anything but being dropped)?"""
    for b in f.blocks:
        if b["cleanup"]:
            continue
        for s in b["stmts"]:
            if s["k"] != "assign":
                continue
            for pl in places_of_stmt(s)[1:]:
                if pl["local"] == local:
                    return True
        t = b["term"]
        if t["k"] == "call":
            for a in t["args"]:
                if a["k"] in ("copy", "move") and a["place"]["local"] == local:
                    return True
        if t["k"] == "switch" and t["discr"]["k"] in ("copy", "move") and t["discr"]["place"]["local"] == local:
            return True
    return local == 0


def r_capfwd(ctx, view):
    prog = view.prog
    ctx.cur = view
    for name in CAP_METHODS:
        f = prog.fn("store::Store::" + name)
        ctx.anchor("Store::" + name, f is not None)
        evs = view.fx.events(f)
        caps = {}
        others = []
        for ev in evs:
            if ev["kind"] == "cap":
                caps.setdefault(ev["comp"], []).append(ev)
                if ev["name"] != name and ev["name"] != "capacity":
                    # a different capacity operation on a container (reserve_exact followed by shrink_to ..): the method no
                    # longer guarantees what its name promises
                    others.append("capacity call %s.%s line %d" % (ev["comp"], ev["name"], ev["span"]["line"]))
            elif ev["kind"] in ("tw", "mw", "mwraw"):
                others.append("%s %s line %d" % (ev["kind"], ev.get("how") or ev.get("name"), ev["span"]["line"]))
            elif ev["kind"] in ("ext", "call") and ev["name"] not in ("branch", "from_residual", "from", "into", "map_err", "map", "and_then", "and", "ok") and ev["ci"].key not in (
                    "std::ops::Try::branch", "std::ops::FromResidual::from_residual"):
                others.append("call %s line %d" % (ev["key"], ev["span"]["line"]))
        for comp in ("map", "heap", "qp"):
            cs = caps.get(comp, [])
            same = [e for e in cs if e["name"] == name]
            ok = bool(same)
            why = "calls %s.%s" % (comp, name)
            argbad = False
            if ok:
                # argument is the parameter, unmodified
                if name != "shrink_to_fit":
                    a = view.fx.args_vp(same[0]["ci"])
                    ok = len(a) == 2 and is_param(a[1], 2)
                    why += "(%s)" % term_str(a[1]) if len(a) > 1 else ""
                    if not ok:
                        argbad = True
                        why += " - the requested amount must be forwarded unmodified"
            if argbad:
                pass
            elif ok:
                # on every path: for the try_ forms an earlier failure legitimately returns first, so the
                # requirement is "no normal path to a *successful* return avoids it"; approximated by
                # must-pass over paths that do not go through a `?` early-return (from_residual)
                blocked = {e["bb"] for e in same}
                err_blocks = {ev["bb"] for ev in evs if ev.get("key") == "std::ops::FromResidual::from_residual"}
                # an explicit `return Err(..)` ends an error path as well: blocks that build the result as an `Err` literal
                for bi2 in sorted(f.cfg.reach):
                    for st2 in f.blocks[bi2]["stmts"]:
                        # (into the return place, or into the intermediate result of a `.and_then(..)` chain)
                        if st2["k"] == "assign" and not st2["place"]["proj"] and st2["rv"]["k"] == "aggregate" \
                                and st2["rv"].get("variant") == "Err" and st2["rv"].get("path", "").endswith("result::Result"):
                            err_blocks.add(bi2)
                p = None if 0 in blocked else f.cfg.escape_path(0, blocked | err_blocks)
                ok = p is None
                if not ok:
                    why = "a normal path reaches a successful return without calling %s.%s: blocks %s" % (comp, name, p)
            else:
                why = "no call of %s.%s (found capacity calls %s)" % (comp, name, [e["name"] for e in cs])
            ctx.ob("R-CAPFWD", "Store::%s:%s" % (name, comp), ok, f.loc(), why)
        ctx.ob("R-CAPFWD", "Store::%s:nothing-else" % name, not others, f.loc(),
               "no table/map write and no other call" if not others else "also performs: " + "; ".join(others))
        if name.startswith("try_"):
            # panic-free: no overflow assert, no unwrap/expect/panic; errors flow through `?`
            bad = []
            for bi, b in enumerate(f.blocks):
                if b["cleanup"]:
                    continue
                t = b["term"]
                if t["k"] == "assert":
                    bad.append("checked arithmetic (%s) line %d" % (t["msg_s"][:40], t["span"]["line"]))
                if t["k"] == "call" and "func" in t and t["func"]["name"] in ("unwrap", "expect", "panic", "panic_fmt", "unwrap_unchecked", "begin_panic"):
                    bad.append("%s line %d" % (t["func"]["key"], t["span"]["line"]))
            ctx.ob("R-CAPFWD", "Store::%s:panic-free" % name, not bad, f.loc(), "; ".join(bad) if bad else "no panicking construct; errors propagate with `?`")
            # every fallible reservation's result is consumed (by `?`, a match, map_err, or returned), never discarded
            dropped = []
            for comp in ("map", "heap", "qp"):
                for e in caps.get(comp, []):
                    if e["name"] != name:
                        continue
                    dest = f.term(e["bb"])["dest"]
                    used = result_is_used(f, dest["local"]) if not dest["proj"] else True
                    if not used:
                        dropped.append("%s.%s" % (comp, name))
            ctx.ob("R-CAPFWD", "Store::%s:errors-propagate" % name, not dropped, f.loc(),
                   "every reservation result is consumed" if not dropped else "result(s) discarded: %s" % dropped)
            # path by path: `Ok` is returned only after every reservation made on the path has been seen to succeed
            res_blocks = {e["bb"] for comp in ("map", "heap", "qp") for e in caps.get(comp, []) if e["name"] == name}
            bad_path = ok_only_after_success(view, f, res_blocks)
            ctx.ob("R-CAPFWD", "Store::%s:ok-only-after-every-reservation-succeeded" % name, bad_path is None, f.loc(),
                   bad_path or "every path that returns Ok has taken the success edge of each reservation it made")
        for Q in QUEUES:
            q = prog.fn("%s::%s" % (Q, name))
            ctx.anchor("%s::%s" % (Q, name), q is not None)
            ok, why = forwards(view, q, "store::Store::" + name, arg_params=[] if name == "shrink_to_fit" else [2], recv_field="store")
            ctx.ob("R-CAPFWD", "%s::%s:delegates" % (QNAME[Q], name), ok, q.loc(), why)
    # capacity() = map.capacity()
    f = prog.fn("store::Store::capacity")
    ctx.anchor("Store::capacity", f is not None)
    r = ret_term(view, f)
    ok = r[0] == "call" and r[1].endswith("::capacity") and component(r[2][0]) and component(r[2][0])[0] == "map"
    ctx.ob("R-CAPFWD", "Store::capacity:is-map-capacity", bool(ok), f.loc(), "capacity() = %s" % term_str(r))
    for Q in QUEUES:
        q = prog.fn("%s::capacity" % Q)
        ok, why = forwards(view, q, "store::Store::capacity", arg_params=[], recv_field="store")
        ctx.ob("R-CAPFWD", "%s::capacity:delegates" % QNAME[Q], ok, q.loc(), why)
    # with_capacity_and_hasher gives `capacity` to all three containers, size 0
    f = prog.fn("store::Store::with_capacity_and_hasher")
    ctx.anchor("Store::with_capacity_and_hasher", f is not None)
    r = ret_term(view, f)
    ok = False
    why = term_str(r)
    if r[0] == "adt" and r[1] == STORE:
        fields = [x["name"] for x in prog.adts[STORE]["variants"][0]["fields"]]
        vals = dict(zip(fields, r[3]))
        ok = True
        for c in ("map", "heap", "qp"):
            v = vals.get(c)
            if not (v and v[0] == "call" and v[1].split("::")[-1] in ("with_capacity_and_hasher", "with_capacity") and v[2] and is_param(v[2][0], 1)):
                ok = False
                why = "%s is built by %s" % (c, term_str(v) if v else "?")
        if const_int(strip(vals.get("size", ("x",)))) != 0:
            ok = False
            why = "size starts at %s" % term_str(vals.get("size"))
    ctx.ob("R-CAPFWD", "Store::with_capacity_and_hasher:all-three", ok, f.loc(), why)
    r_capinvisible(ctx, view)
    # conversions of both error kinds exist
    fr = [i for i in prog.impls if i.get("trait") == "std::convert::From" and i["self_desc"] == "TryReserveError"]
    ctx.ob("R-CAPFWD", "TryReserveError:From-both-sources", len(fr) == 2, "", "%d From impls for TryReserveError" % len(fr))


def r_capinvisible(ctx, view):
    """capacity is semantically invisible: results of any capacity() call only ever become the result of a capacity
    accessor (never a branch condition or an argument).  Also what makes a clone - which does not keep the capacity -
    behave like its source (C14)."""
    prog = view.prog
    ctx.cur = view
    n = 0
    for g in sorted(prog.fns.values(), key=lambda x: x.key):
        for bb, t in g.calls():
            if "func" in t and t["func"]["name"] == "capacity":
                n += 1
                r = ret_term(view, g)
                ok = g.name == "capacity" and r[0] == "call" and r[3] == (g.key, bb)
                ctx.ob("R-CAPFWD", "capacity-invisible:%s" % g.key, ok, g.loc(t["span"]),
                       "a capacity() result may only be returned by a `capacity` accessor; here it is used inside %s" % g.key)
    ctx.floor("R-CAPFWD:capacity-calls", n, 3)


# ------------------------------------------------------------------------------------------
# R-KEYMUT (C12)
# ------------------------------------------------------------------------------------------
KEYMUT_SANCTIONED = {
    "store::Store::get_mut": "documented mutable-key accessor (returns (&mut I, &P))",
    PQ + "::peek_mut": "documented mutable-key accessor",
    DPQ + "::peek_min_mut": "documented mutable-key accessor",
    DPQ + "::peek_max_mut": "documented mutable-key accessor",
    "store::Store::swap_remove_if": "pop_*_if predicates receive &mut I by signature",
    "<priority_queue::iterators::IterMut as Iterator>::next": "iter_mut yields &mut I by signature",
    "<double_priority_queue::iterators::IterMut as Iterator>::next": "iter_mut yields &mut I by signature",
    "<double_priority_queue::iterators::IterMut as DoubleEndedIterator>::next_back": "iter_mut yields &mut I by signature",
    "store::Store::retain_mut": "retain_mut predicates receive &mut I by signature",
    "<store::Store as FromIterator<(..)>>::from_iter": "bulk construction: documented `the item inside the pq is updated`",
}
UPDATE_PATHS = ("push", "push_increase", "push_decrease", "change_priority", "change_priority_by")
LOOKUPS = ("get", "get_mut", "get_priority", "change_priority", "change_priority_by", "remove")


KEY_COMPONENT = {"get_full_mut2": 1, "get_index_mut2": 0}   # which component of the returned tuple is the `&mut K`


def key_component_unused(f, bb, kidx):
    """the lookup at block bb returns Option<(.., &mut K, ..)>: is the `&mut K` component provably never read?  (the
    tuple is only taken apart, and component kidx is not among the parts used; any other use of the result - handed to a
    call or a closure, stored, returned - counts as a use of the key)"""
    t = f.term(bb)
    if t["k"] != "call" or t["dest"]["proj"]:
        return False
    carriers = {t["dest"]["local"]: "opt"}

    def classify(pl):
        """use of a carrier through place pl -> None (harmless) | ('opt'|'tuple') (the value flows on) | 'KEY' | 'ESCAPE'"""
        kind = carriers[pl["local"]]
        pr = [e for e in pl["proj"] if e["k"] != "deref"]
        if kind == "opt":
            if not pr:
                return "opt"
            if pr[0]["k"] != "downcast":
                return "ESCAPE"
            if pr[0].get("name") not in ("Some", "Continue"):
                return None          # the None / Break side carries no entry
            pr = pr[1:]
            if not pr:
                return "ESCAPE"
            if not (pr[0]["k"] == "field" and pr[0].get("i") == 0):
                return "ESCAPE"
            pr = pr[1:]
        if not pr:
            return "tuple"
        if pr[0]["k"] == "field":
            return "KEY" if pr[0].get("i") == kidx else None
        return "ESCAPE"

    for _ in range(12):
        changed = False
        for bi in sorted(f.cfg.reach):
            b = f.blocks[bi]
            if b["cleanup"]:
                continue
            for s in b["stmts"]:
                if s["k"] != "assign":
                    continue
                rv = s["rv"]
                ops = []
                if rv["k"] == "use":
                    ops = [("use", rv["op"])]
                elif rv["k"] == "discriminant":
                    continue
                else:
                    stack = [rv]
                    while stack:
                        x = stack.pop()
                        if isinstance(x, dict):
                            if "local" in x and "proj" in x:
                                ops.append(("other", {"k": "copy", "place": x}))
                                continue
                            stack.extend(x.values())
                        elif isinstance(x, list):
                            stack.extend(x)
                for how, o in ops:
                    if o.get("k") not in ("copy", "move") or o["place"]["local"] not in carriers:
                        continue
                    c = classify(o["place"])
                    if c in ("KEY", "ESCAPE"):
                        return False
                    if c in ("opt", "tuple"):
                        if how != "use" or s["place"]["proj"]:
                            return False
                        if carriers.get(s["place"]["local"]) != c:
                            if s["place"]["local"] in carriers:
                                return False
                            carriers[s["place"]["local"]] = c
                            changed = True
            tt = b["term"]
            if tt["k"] == "call" and not (bi == bb):
                for a in tt.get("args", []):
                    if a.get("k") in ("copy", "move") and a["place"]["local"] in carriers:
                        c = classify(a["place"])
                        if c is None:
                            continue
                        if c == "opt" and (tt.get("func") or {}).get("key") == "std::ops::Try::branch" and not tt["dest"]["proj"]:
                            if carriers.get(tt["dest"]["local"]) != "opt":
                                carriers[tt["dest"]["local"]] = "opt"
                                changed = True
                            continue
                        return False
            elif tt["k"] in ("switch",):
                pass
            elif tt["k"] == "return":
                if 0 in carriers:
                    return False
        if not changed:
            break
    return 0 not in carriers


def keymut_sources(view):
    prog = view.prog
    out = {}
    for f in prog.fns.values():
        for ev in view.fx.events(f):
            nm = ev.get("name")
            is_km = (ev["kind"] in ("mw", "mr") and (nm in MAP_KEYMUT or ev.get("mclass") == "keymut"))
            if not is_km and "ci" in ev and ev["ci"].krate == "indexmap" and nm in MAP_KEYMUT:
                is_km = True
            if is_km and nm in KEY_COMPONENT and not f.is_closure and root_fn(prog, f).key not in KEYMUT_SANCTIONED \
                    and not ev.get("inlined_from") and isinstance(ev.get("bb"), int) and key_component_unused(f, ev["bb"], KEY_COMPONENT[nm]):
                # the lookup hands out `&mut K` together with the value, but this function never touches that component
                is_km = False
            if is_km:
                out.setdefault(root_fn(prog, f).key, []).append("%s line %d" % (ev["key"], ev["span"]["line"]))
    return out


def r_keymut(ctx, view, only=None):
    prog = view.prog
    ctx.cur = view
    src = keymut_sources(view)
    if only:
        # restrict to the named sub-rules (obligations of the others are computed but dropped)
        n0 = len(ctx.obs)
        r_keymut(ctx, view)
        ctx.obs[n0:] = [o for o in ctx.obs[n0:] if o.key.split(":")[0] in only]
        return
    # k1: the set of functions that can obtain &mut I equals the sanctioned set
    for k in sorted(set(src) | set(KEYMUT_SANCTIONED)):
        if k in src and k in KEYMUT_SANCTIONED:
            ctx.ob("R-KEYMUT", "k1:%s" % k, True, prog.fn(k).loc(), "sanctioned: " + KEYMUT_SANCTIONED[k])
        elif k in src:
            ctx.ob("R-KEYMUT", "k1:%s" % k, False, prog.fn(k).loc(),
                   "obtains mutable access to a stored key (%s) but is not one of the sanctioned accessors" % "; ".join(src[k]))
        # a sanctioned accessor that no longer needs the access is fine (not an obligation)
    ctx.floor("R-KEYMUT:k1", len(src), 8)
    # k2: update paths never reach a key-mutating function nor remove/replace an entry
    for Q in QUEUES:
        for name in UPDATE_PATHS:
            f = prog.fn("%s::%s" % (Q, name))
            ctx.anchor("%s::%s" % (Q, name), f is not None)
            reach = view.fx.reach(f.key)
            km = sorted(k for k in reach if root_fn(prog, prog.fn(k)).key in src)
            bad = []
            if km:
                bad.append("reaches key-mutating function(s) %s" % km)
            for k in sorted(reach):
                g = prog.fn(k)
                for ev in view.fx.events(g):
                    if ev["kind"] == "mw" and ev.get("mclass") in ("shrink", "clear", "retain", "reorder"):
                        bad.append("reaches an entry-removing/reordering map write `%s` in %s (line %d): the stored item would be replaced by the caller's key" % (
                            ev["name"], k, ev["span"]["line"]))
            ctx.ob("R-KEYMUT", "k2:%s::%s" % (QNAME[Q], name), not bad, f.loc(),
                   "; ".join(bad) if bad else "occupied path touches the entry only through value accessors; %d functions reachable" % len(reach))
    # k3: the sifts write only heap/qp (entries never move)
    for Q in QUEUES:
        for name in ("heapify", "bubble_up", "up_heapify", "heap_build", "heapify_min", "heapify_max", "bubble_up_min", "bubble_up_max"):
            f = prog.fn("%s::%s" % (Q, name))
            if f is None:
                continue
            eff = set()
            for k in view.fx.reach(f.key):
                eff |= {e for e in view.fx.effects[k] if e.startswith("MW")}
            ctx.ob("R-KEYMUT", "k3:%s::%s" % (QNAME[Q], name), not eff, f.loc(),
                   "sift functions must not write the map (found %s)" % sorted(eff) if eff else "moves indices only")
    # k4: lookups forward the borrowed key unchanged
    for name in LOOKUPS:
        f = prog.fn("store::Store::" + name)
        ctx.anchor("Store::" + name, f is not None)
        found = False
        for g in prog.family(f.key):
            for ev in view.fx.events(g):
                if ev.get("comp") == "map" and ev["kind"] in ("mw", "mr") and "ci" in ev and ev["ci"].mruc:
                    a = view.fx.args_vp(ev["ci"])
                    ok = len(a) >= 2 and is_param(a[1], 2)
                    found = True
                    ctx.ob("R-KEYMUT", "k4:Store::%s:%s" % (name, ev["name"]), ok, g.loc(ev["span"]),
                           "lookup key is %s (must be the `item` parameter unmodified)" % (term_str(a[1]) if len(a) > 1 else "?"))
        if not found:
            # written through a sibling lookup (`get_priority` = `self.get(item)?.1`): the key must be forwarded unchanged
            for g in prog.family(f.key):
                for bb, _ in g.calls():
                    ci = view.fx.call_info(g, bb)
                    if ci.local_callee and ci.local_callee != f.key and ci.local_callee in ["store::Store::" + n for n in LOOKUPS]:
                        a = view.fx.args_vp(ci)
                        ok = len(a) >= 2 and is_param(a[1], 2)
                        found = True
                        ctx.ob("R-KEYMUT", "k4:Store::%s:%s" % (name, ci.local_callee.split("::")[-1]), ok, g.loc(ci.span),
                               "delegates to Store::%s with key %s (must be the `item` parameter unmodified)" % (
                                   ci.local_callee.split("::")[-1], term_str(a[1]) if len(a) > 1 else "?"))
        ctx.anchor("Store::%s performs a keyed map lookup" % name, found)
        for Q in QUEUES:
            q = prog.fn("%s::%s" % (Q, name))
            ctx.anchor("%s::%s" % (Q, name), q is not None)
            calls = [(bb, view.fx.call_info(q, bb)) for bb, _ in q.calls()]
            st = [c for _, c in calls if c.local_callee == "store::Store::" + name]
            ok = len(st) == 1 and is_param(view.fx.args_vp(st[0])[1], 2)
            ctx.ob("R-KEYMUT", "k4:%s::%s:forwards-key" % (QNAME[Q], name), ok, q.loc(), "passes `item` unmodified to Store::%s" % name)


# ------------------------------------------------------------------------------------------
# R-EXPOSE (C01, C02, C08)
# ------------------------------------------------------------------------------------------
EXPOSE_FROZEN = {
    PQ: {"iter_mut", "<&mut as IntoIterator>::into_iter", "pop_if", "retain_mut", "change_priority_by"},
    DPQ: {"iter_mut", "<&mut as IntoIterator>::into_iter", "pop_min_if", "pop_max_if", "retain_mut", "change_priority_by"},
}


def mut_prio_types(prog):
    """ADT paths of iterator types whose Item mentions `&mut P`"""
    out = set()
    for im in prog.impls:
        if im.get("trait") == "std::iter::Iterator":
            for it in im["items"]:
                if it["kind"] == "Type" and it["name"] == "Item" and "mut P" in it["ty"]["s"]:
                    out.add(im["self_desc"])
    return out


def exposes_mut_priority(prog, f, mtypes):
    s = json.dumps(f.j.get("inputs")) + json.dumps(f.j.get("output"))
    ps = " ".join(p["s"] for p in f.j.get("preds", []))
    if "mut P" in s or "mut P)" in ps or "mut P," in ps:
        return True
    out = f.j.get("output", {})
    for x in ty_walk(out):
        if x.get("k") == "adt" and x.get("path") in mtypes:
            return True
    return False


def r_expose(ctx, view, Q):
    prog = view.prog
    ctx.cur = view
    mtypes = mut_prio_types(prog)
    got = set()
    fobj = {}
    for f in prog.fns.values():
        if f.is_closure or not f.exported:
            continue
        st = f.j.get("impl_self") or {}
        base = st
        ref = ""
        while base.get("k") == "ref":
            ref = "&mut " if base["mut"] else "&"
            base = base["inner"]
        if base.get("path") != Q:
            continue
        if exposes_mut_priority(prog, f, mtypes):
            nm = f.name if not f.j.get("impl_trait") else "<%sas %s>::%s" % (ref, f.j["impl_trait"].split("::")[-1], f.name)
            got.add(nm)
            fobj[nm] = f
    want = EXPOSE_FROZEN[Q]
    for nm in sorted(got | want):
        if nm in got and nm in want:
            ctx.ob("R-EXPOSE", "%s:%s" % (QNAME[Q], nm), True, "", "hands out &mut P; owns an R-RESTORE obligation")
        elif nm in got:
            # a NEW such API is acceptable iff what it hands out is written through before it returns (a callback) and every one of
            # those writes owns a satisfied R-RESTORE obligation; a reference that outlives the call can never be covered
            from . import rules_order as _O
            f = fobj[nm]
            evs = []
            for g in prog.family(f.key):
                evs += _O.dirty_events(view, Q, g)
            res = [_O.check_event(view, Q, d) for d in evs]
            outj = f.j.get("output") or {}
            returns_it = "mut P" in json.dumps(outj) or any(x.get("k") == "adt" and x.get("path") in mtypes for x in ty_walk(outj))
            ok = bool(evs) and all(r[0] for r in res) and not returns_it
            ctx.ob("R-EXPOSE", "%s:%s" % (QNAME[Q], nm), ok, f.loc(),
                   "new public API handing `&mut P` to a callback; its %d dirty event(s) are all restored before it returns" % len(evs) if ok else
                   "new public API handing out `&mut P`: every such API must re-establish the heap order (%s)" % (
                       "the reference outlives the call" if returns_it and evs else "no restoration rule instance exists for it" if not evs else "a write through it is not restored"))
    ctx.floor("R-EXPOSE:" + QNAME[Q], len(got & want), len(want))
    # the read / mutable-key accessors keep returning &P
    for nm in (("get_mut", "peek_mut") if Q == PQ else ("get_mut", "peek_min_mut", "peek_max_mut")):
        f = prog.fn("%s::%s" % (Q, nm))
        ctx.anchor("%s::%s" % (Q, nm), f is not None)
        ctx.ob("R-EXPOSE", "%s:%s:returns-shared-priority" % (QNAME[Q], nm), not exposes_mut_priority(prog, f, mtypes), f.loc(),
               "signature %s" % f.j["output"]["s"])
    # only iter_mut / IntoIterator for &mut Q construct the IterMut of this queue
    itm = Q.rsplit("::", 1)[0] + "::iterators::IterMut"
    ctors = set()
    for f in prog.fns.values():
        for bi, b in enumerate(f.blocks):
            for s in b["stmts"]:
                if s["k"] == "assign" and s["rv"]["k"] == "aggregate" and s["rv"].get("agg") == "adt" and s["rv"].get("path") == itm:
                    ctors.add(f.key)
    ctx.ob("R-EXPOSE", "%s:IterMut-constructed-only-by-new" % QNAME[Q], ctors == {itm + "::new"}, "",
           "IterMut literals appear in %s" % sorted(ctors))
    callers = set()
    for f in prog.fns.values():
        for bb, t in f.calls():
            if view.fx.call_info(f, bb).local_callee == itm + "::new":
                callers.add(f.key)
    want_callers = {Q + "::iter_mut", "<&mut %s as IntoIterator>::into_iter" % Q}
    reach_ok = all((itm + "::new") in view.fx.reach(k) for k in want_callers if prog.fn(k) is not None)
    ctx.ob("R-EXPOSE", "%s:IterMut::new-callers" % QNAME[Q], bool(callers) and callers <= want_callers and reach_ok, "",
           "IterMut::new is called by %s (only iter_mut / `&mut` into_iter may, and both must reach it)" % sorted(callers))


# ------------------------------------------------------------------------------------------
# R-WRITERS (C04, C10)
# ------------------------------------------------------------------------------------------
WRITERS = {
    "store::Store::swap", "store::Store::swap_remove", "store::Store::remove", "store::Store::clear",
    "store::Store::drain", "store::Store::retain_mut", "store::Store::append",
    "<store::Store as Extend<(..)>>::extend", "<store::Store as From<Vec>>::from",
    "<store::Store as FromIterator<(..)>>::from_iter",
    PQ + "::push", DPQ + "::push", PQ + "::bubble_up", DPQ + "::bubble_up", DPQ + "::bubble_up_min", DPQ + "::bubble_up_max",
}
WRITERS_SERDE = {"<store::serde::StoreVisitor as Visitor>::visit_seq"}


def r_writers(ctx, view):
    """who may write the index tables: (1) functions of `store::Store` (and its trait impls / the serde visitor) - the owners;
    (2) outside the store only the queues' own `push` and private (non-exported) functions of the queue types, and those
    only by element writes / pushes / `size += 1` - never clearing, truncating, removing or re-assigning a table;
    (3) no iterator type writes a table."""
    prog = view.prog
    ctx.cur = view
    got = {}
    spliced = {}
    for f in prog.fns.values():
        for ev in view.fx.events(f):
            if ev["kind"] == "tw":
                origin = f.blocks[ev["bb"]].get("from_fn", "") if isinstance(ev.get("bb"), int) and ev["bb"] < len(f.blocks) else ""
                rk = root_fn(prog, f).key
                if origin.startswith(("store::Store::", "<store::Store as")) and not rk.startswith(("store::", "<store::")):
                    # the write sits in the spliced body of a NEW function of the Store (inlined into its callers so that every
                    # rule judges it in context): it is the Store's write, not the caller's
                    spliced.setdefault(origin, []).append(ev)
                    continue
                got.setdefault(root_fn(prog, f).key, []).append(ev)
    for k in sorted(spliced):
        ctx.ob("R-WRITERS", k + ":spliced", True, "", "a new function of the Store, which owns the tables (%d raw writes, analysed inside its callers)" % len(spliced[k]))
    n = len(spliced)
    for k in sorted(got):
        f = prog.fn(k)
        st = f.j.get("impl_self") or {}
        while st.get("k") == "ref":
            st = st["inner"]
        owner = st.get("path", "")
        hows = sorted({"%s %s" % (e["comp"], e["how"]) for e in got[k]})
        n += 1
        if owner == STORE or k.startswith(("store::", "<store::")):
            ctx.ob("R-WRITERS", k, True, f.loc(), "a function of the Store, which owns the tables (%d raw writes)" % len(got[k]))
            continue
        if owner in QUEUES:
            gentle = all(e["how"] in ("elem", "call:push") or (e["comp"] == "size" and e["how"] == "whole" and size_plus_one(e)) for e in got[k])
            ok = (f.name == "push" or not f.exported) and gentle
            ctx.ob("R-WRITERS", k, ok, f.loc(),
                   "queue-internal writer (element writes / pushes only): %s" % hows if ok else
                   "writes the index tables directly (%s) although it is %s" % (hows, "a public API other than push" if f.exported and f.name != "push" else "not limited to element writes and pushes"))
            continue
        ctx.ob("R-WRITERS", k, False, f.loc(), "writes the index tables (%s) but is neither a Store function nor a queue-internal sift/push" % hows)
    ctx.floor("R-WRITERS", n, 14)


def size_plus_one(e):
    v = e.get("val")
    x = v[1] if v and v[0] == "field" and v[1][0] == "binop" else v
    return bool(x) and x[0] == "binop" and x[1].startswith("Add") and const_int(strip(x[3])) == 1


# ------------------------------------------------------------------------------------------
# R-UNSAFEKINDS / R-DROPLESS (C04, C10, C16)
# ------------------------------------------------------------------------------------------
UNSAFE_ALLOWED = {"[T]::get_unchecked", "[T]::get_unchecked_mut", "store::Store::get_priority_from_position", "*mut T::as_mut"}
OWNERSHIP_FORBIDDEN = ("std::ptr::read", "std::ptr::write", "std::ptr::copy", "std::ptr::copy_nonoverlapping", "std::ptr::swap",
                       "std::ptr::replace", "std::ptr::drop_in_place", "std::mem::transmute", "std::mem::transmute_copy",
                       "std::mem::forget", "std::mem::zeroed", "std::mem::uninitialized", "std::mem::ManuallyDrop",
                       "std::mem::MaybeUninit", "std::vec::Vec::set_len", "std::vec::Vec::from_raw_parts",
                       "std::slice::from_raw_parts", "std::slice::from_raw_parts_mut", "std::boxed::Box::from_raw",
                       "std::boxed::Box::leak", "std::intrinsics::")


def r_unsafekinds(ctx, view):
    prog = view.prog
    ctx.cur = view
    n = 0
    for f in sorted(prog.fns.values(), key=lambda x: x.key):
        for bb, t in f.calls():
            if "func" not in t or foreign_expansion(t["span"]):
                continue
            fk = t["func"]["key"]
            if t["func"].get("unsafe"):
                n += 1
                callee = prog.fn(view.fx.call_info(f, bb).local_callee or "")
                if callee is not None and not callee.exported and callee.key not in view.fx.known_functions():
                    # a new PRIVATE unsafe helper: its body is inspected like any other (only the three kinds of unsafe
                    # operation inside) and its safety contract is inferred and checked at every call site by R-BOUNDS
                    ctx.ob("R-UNSAFEKINDS", "%s:bb%d:%s" % (f.key, bb, fk), True, f.loc(t["span"]),
                           "call of the private unsafe helper %s (contract inferred and checked by R-BOUNDS)" % callee.name)
                    continue
                ctx.ob("R-UNSAFEKINDS", "%s:bb%d:%s" % (f.key, bb, fk), fk in UNSAFE_ALLOWED, f.loc(t["span"]),
                       "unsafe call %s" % fk + ("" if fk in UNSAFE_ALLOWED else " is not one of the three kinds of unsafe operation this crate is built from"))
            elif fk.startswith(OWNERSHIP_FORBIDDEN) or t["func"]["path"].startswith(OWNERSHIP_FORBIDDEN):
                ctx.ob("R-UNSAFEKINDS", "%s:forbidden:%s" % (f.key, fk), False, f.loc(t["span"]),
                       "%s can duplicate or forget ownership of an item/priority" % fk)
        # raw pointer dereferences as places (other than through as_mut)
        for b in f.blocks:
            for s in b["stmts"]:
                if s["k"] != "assign" or foreign_expansion(s["span"]):
                    continue
                for pl in places_of_stmt(s):
                    if pl["proj"] and pl["proj"][0]["k"] == "deref" and f.local_ty(pl["local"]).get("k") == "ptr":
                        # `&mut *p` / `&*p` (a plain reborrow, nothing read or moved out) inside an iterator step is the same
                        # kind of operation as `p.as_mut()`: the lifetime extension that R-CURSOR governs
                        root = f
                        while root.is_closure:
                            root = prog.fn(root.parent_fn)
                        reborrow = s["rv"]["k"] == "ref" and s["rv"]["place"] is pl and len(pl["proj"]) == 1
                        step = root.name in ("next", "next_back") and root.j.get("impl_trait") in ("std::iter::Iterator", "std::iter::DoubleEndedIterator")
                        ok = reborrow and step
                        ctx.ob("R-UNSAFEKINDS", "%s:raw-deref" % f.key, ok, f.loc(s["span"]),
                               "reborrow of a raw pointer inside an iterator step (kind: lifetime extension, governed by R-CURSOR)" if ok else "dereferences a raw pointer directly")
        if f.j.get("unsafe") and f.key != "store::Store::get_priority_from_position" and (f.exported or f.key in view.fx.known_functions()):
            ctx.ob("R-UNSAFEKINDS", "%s:unsafe-fn" % f.key, False, f.loc(), "new exported `unsafe fn`")
    ctx.floor("R-UNSAFEKINDS", n, 40)
    # table element types are Copy and have no destructor
    for T in ("store::Index", "store::Position"):
        a = prog.adts.get(T)
        ctx.anchor(T, a is not None)
        ctx.ob("R-UNSAFEKINDS", "%s:copy-no-drop" % T, a["copy"] and not a["needs_drop"], "", "copy=%s needs_drop=%s" % (a["copy"], a["needs_drop"]))
    st = prog.adts[STORE]
    ftys = {f["name"]: f["ty"]["s"] for f in st["variants"][0]["fields"]}
    ctx.ob("R-UNSAFEKINDS", "Store:tables-hold-indices-only",
           ftys.get("heap") == "std::vec::Vec<store::Index>" and ftys.get("qp") == "std::vec::Vec<store::Position>", "",
           "heap: %s, qp: %s (items and priorities live only in the IndexMap)" % (ftys.get("heap"), ftys.get("qp")))


def places_of_stmt(s):
    out = [s["place"]]
    rv = s["rv"]
    for k in ("place",):
        if k in rv:
            out.append(rv[k])
    for k in ("op", "a", "b"):
        if k in rv and isinstance(rv[k], dict) and rv[k]["k"] in ("copy", "move"):
            out.append(rv[k]["place"])
    for o in rv.get("ops", []):
        if o["k"] in ("copy", "move"):
            out.append(o["place"])
    return out


def r_dropless(ctx, view):
    prog = view.prog
    ctx.cur = view
    drops = sorted(i["self_desc"] for i in prog.impls if i.get("trait") == "std::ops::Drop")
    want = ["double_priority_queue::iterators::IterMut", "priority_queue::iterators::IterMut"]
    def whole_queue_handle(d):
        """a NEW type with a destructor is harmless when nothing can be left open for the destructor to close: all it holds of a
        queue is a reference to the WHOLE queue (every change it makes goes through functions of the queue, each of which is
        checked to leave the tables consistent when it returns) - no table, map, store, raw pointer or owned part of one"""
        a = prog.adts.get(d)
        if not a or a.get("kind") != "Struct":
            return False
        for var in a.get("variants", []):
            for fl in var.get("fields", []):
                ty = fl["ty"]
                if ty.get("k") == "ref" and (ty.get("inner") or {}).get("k") == "adt" and ty["inner"].get("path") in QUEUES:
                    continue
                txt = ty.get("s", "")
                if any(w in txt for w in ("Store", "Vec<", "IndexMap", "*mut", "*const", "Index", "Position", "NonNull", "ManuallyDrop",
                                          "MaybeUninit", "PriorityQueue", "Drain", "IterMut")):
                    return False
        return True
    for d in sorted(set(drops) | set(want)):
        handle = d not in want and d in drops and whole_queue_handle(d)
        ctx.ob("R-DROPLESS", "Drop:%s" % d, d in want or d not in drops or handle, "",
               "destructor of IterMut (re-establishes order only)" if d in want else
               "new Drop impl for %s: the type holds only a reference to the whole queue, so no table can be left open for its destructor" % d if handle else
               "new Drop impl for %s: memory safety / emptiness must not depend on a destructor running (mem::forget is safe)" % d)
    # the constructors of the Drop types write nothing
    for T in want:
        f = prog.fn(T + "::new")
        ctx.anchor(T + "::new", f is not None)
        eff = {e for k in view.fx.reach(f.key) for e in view.fx.effects[k] if e in ("TW", "MW")}
        ctx.ob("R-DROPLESS", "%s::new:opens-nothing" % T, not eff, f.loc(), "constructor performs no table/map write (effects %s)" % sorted(eff))


# ------------------------------------------------------------------------------------------
# R-DBGPURE: a build with debug assertions does what the analysed build does
# ------------------------------------------------------------------------------------------
def _sig_events(view, f):
    """multiset of the events of body f that change state or run user code (what a debug-only statement may not do)"""
    import collections
    fx = view.fx
    out = collections.Counter()
    for e in fx.events(f):
        k = e["kind"]
        if k in ("tw", "mw", "mwraw", "cap"):
            out[(k, e.get("comp"), e.get("how") or e.get("name"), e.get("mclass"))] += 1
        elif k == "call":
            eff = {x for x in fx.effects.get(e["callee"], ()) if x in ("TW", "MW", "KEYMUT", "CMP", "MRUC")}
            if eff:
                out[("call", e["callee"], tuple(sorted(eff)))] += 1
        elif k == "ext":
            ci = e.get("ci")
            if ci is not None and (ci.cmp or ci.mruc):
                out[("user", e.get("name"), "cmp" if ci.cmp else "mruc")] += 1
    return out


def r_dbgpure(ctx, view, kinds=("TW", "MW", "KEYMUT", "CMP", "MRUC")):
    """R-DBGPURE.  Every other rule reads the crate as a release build compiles it (`-Cdebug-assertions=off`): code under
    `#[cfg(debug_assertions)]` does not exist there and the body of a `debug_assert!` is cut off by constant folding.  The tests,
    and most users most of the time, run the other build.  So the default configuration is extracted a second time with debug
    assertions ON and compared body by body: what exists only under debug assertions may read, but may not write a table or
    the map, obtain a key mutably, compare priorities or run any other user code.  Then the verdict of all the other rules
    carries over to the debug build."""
    if view.config != "std":
        return
    from .engine import CheckError
    ctx.cur = view
    try:
        dv = ctx.view("dbg")
    except CheckError as e:
        ctx.undecided.append("R-DBGPURE: the build with debug assertions could not be analysed (%s)" % str(e)[:200])
        return
    finally:
        ctx.cur = view
    ctx.views.pop("dbg", None)   # an auxiliary view: not one of the configurations the property's rules are evaluated in
    want = set(kinds)
    bad = 0
    n = 0
    # only code a user of the crate can make run (a private checker nothing calls is test scaffolding, not behaviour)
    live = set()
    for key, g in dv.prog.fns.items():
        if g.exported and key not in live:
            live |= dv.fx.reach(key)
    for key in sorted(set(view.prog.fns) | set(dv.prog.fns)):
        f, g = view.prog.fns.get(key), dv.prog.fns.get(key)
        if g is None:
            continue   # exists only WITHOUT debug assertions: the analysed build has it
        if key not in live:
            continue
        n += 1
        if f is None:
            eff = {x for x in dv.fx.effects.get(key, ()) if x in want}
            if eff:
                bad += 1
                ctx.ob("R-DBGPURE", "%s:debug-only-function" % key, False, g.loc(),
                       "this function exists only under debug assertions and has the effects %s: the debug build writes / compares "
                       "where the analysed build does not" % sorted(eff))
            continue
        a, b = _sig_events(view, f), _sig_events(dv, g)
        extra = b - a
        extra = {k: v for k, v in extra.items() if (k[0] in ("tw", "cap") and "TW" in want) or (k[0] in ("mw", "mwraw") and "MW" in want)
                 or (k[0] == "call" and set(k[2]) & want) or (k[0] == "user" and (("CMP" in want and k[2] == "cmp") or ("MRUC" in want)))}
        if extra:
            bad += 1
            ctx.ob("R-DBGPURE", "%s:debug-only-effects" % key, False, g.loc(),
                   "with debug assertions on, this body additionally performs %s" % "; ".join(
                       "%s x%d" % (" ".join(str(x) for x in k if x), v) for k, v in sorted(extra.items(), key=str))[:400])
    ctx.ob("R-DBGPURE", "crate:bodies-compared", True, "",
           "%d bodies compared between the builds without and with debug assertions; %d differ in state-changing / user-code events" % (n, bad))
    ctx.floor("R-DBGPURE", n, 150)


# ------------------------------------------------------------------------------------------
# R-NEWTYPEORD: comparisons of the index newtypes mean comparisons of the numbers they wrap
# ------------------------------------------------------------------------------------------
CMP_TRAIT_METHODS = {
    "std::cmp::PartialEq": ("eq", "ne"), "std::cmp::PartialOrd": ("partial_cmp", "lt", "le", "gt", "ge"),
    "std::cmp::Ord": ("cmp", "max", "min", "clamp"), "std::cmp::Eq": (),
}


def r_newtypeord(ctx, view):
    """R-NEWTYPEORD.  Guards such as `i <= parent(Position(len - 1))`, `m > r`, `i != pos` are read by R-BOUNDS, R-SIFT and R-UPBOTH as
    comparisons of the wrapped numbers.  That is what `#[derive(PartialEq, Eq, PartialOrd, Ord)]` on a one-field struct means; a
    hand-written impl must say the same: each method applies the same-named method to the `.0` fields, in the same order."""
    prog = view.prog
    ctx.cur = view
    n = 0
    for T in ("store::Position", "store::Index"):
        for tr, methods in CMP_TRAIT_METHODS.items():
            ims = [i for i in prog.impls if i.get("trait") == tr and i["self_desc"] == T]
            for im in ims:
                n += 1
                loc = "%s:%d" % (im["span"]["file"], im["span"]["line"])
                if im["auto_derived"]:
                    ctx.ob("R-NEWTYPEORD", "%s:%s" % (T.split("::")[-1], tr.split("::")[-1]), True, loc, "derived: compares the wrapped number")
                    continue
                for it in im["items"]:
                    if it["kind"] != "Fn":
                        continue
                    m = prog.fn(it["key"])
                    r = strip(ret_term(view, m))
                    ok = False
                    why = "hand-written %s::%s returns %s" % (tr.split("::")[-1], it["name"], term_str(r)[:80])
                    if it["name"] in methods and r[0] == "call" and r[1].split("::")[-1] == it["name"] and len(r[2]) >= 2:
                        def dot0(x, pidx):
                            x = strip(x)
                            while x[0] in ("ref", "deref"):
                                x = strip(x[1])
                            if x[0] == "field" and x[2] in (0, "0"):
                                b = strip(x[1])
                                while b[0] in ("ref", "deref"):
                                    b = strip(b[1])
                                return b[0] == "param" and b[2] == pidx
                            return False
                        ok = dot0(r[2][0], 1) and dot0(r[2][1], 2)
                    BIN = {"eq": "Eq", "ne": "Ne", "lt": "Lt", "le": "Le", "gt": "Gt", "ge": "Ge"}
                    if it["name"] in BIN and r[0] == "binop" and r[1] == BIN[it["name"]]:
                        def d0(x, pidx):
                            x = strip(x)
                            while x[0] in ("ref", "deref"):
                                x = strip(x[1])
                            if x[0] == "field" and x[2] in (0, "0"):
                                b = strip(x[1])
                                while b[0] in ("ref", "deref"):
                                    b = strip(b[1])
                                return b[0] == "param" and b[2] == pidx
                            return False
                        ok = d0(r[2], 1) and d0(r[3], 2)
                    if it["name"] == "partial_cmp" and r[0] == "adt" and r[2] == "Some" and r[3]:
                        # Some(self.cmp(other)) where Ord::cmp is itself derived or checked here
                        y = strip(r[3][0])
                        ok = y[0] == "call" and y[1].split("::")[-1] == "cmp" and is_param(y[2][0], 1) and is_param(y[2][1], 2)
                    ctx.ob("R-NEWTYPEORD", "%s:%s::%s" % (T.split("::")[-1], tr.split("::")[-1], it["name"]), ok, m.loc(),
                           "applies `%s` to the wrapped numbers in the same order" % it["name"] if ok else why)
    ctx.floor("R-NEWTYPEORD", n, 8)
