"""Positive fixture for the zero-count rules (fail closed when a rule is blind)."""
import os
import shutil
import subprocess
import tempfile

from .engine import HERE, CheckError, tree_hash, View
from .rules_decl import hash_use, UNSAFE_ALLOWED, OWNERSHIP_FORBIDDEN
from .rules_misc import hint_scan

FIX = os.path.join(HERE, "selftest", "fixture")


def fixture_view():
    cache = os.path.join(HERE, ".cache", "fixture")
    os.makedirs(cache, exist_ok=True)
    key = tree_hash(FIX)
    out = os.path.join(cache, key, "pqfixture.json")
    if not os.path.exists(out):
        tmp = tempfile.mkdtemp(prefix="pqfix.", dir=cache)
        try:
            r = subprocess.run([os.path.join(HERE, "bin", "extract.sh"), FIX, "std", tmp, "pqfixture"], capture_output=True, text=True)
            if r.returncode != 0 or not os.path.exists(os.path.join(tmp, "pqfixture.json")):
                raise CheckError("positive fixture could not be extracted: %s" % (r.stderr or "")[-600:])
            try:
                os.rename(tmp, os.path.join(cache, key))
            except OSError:
                pass
        finally:
            if os.path.isdir(tmp):
                shutil.rmtree(tmp, ignore_errors=True)
    return View("fixture", out)


def must_match(ctx, rules):
    """the named zero-count rules must each match their instance in the fixture crate"""
    v = fixture_view()
    prog = v.prog
    got = {}
    if "R-NOHASH" in rules:
        f = prog.fn("fx_nohash")
        got["R-NOHASH"] = f is not None and sum(1 for bb, t in f.calls() if hash_use(t, f)) >= 2
    if "R-UNSAFEKINDS" in rules:
        f = prog.fn("fx_unsafekinds")
        g = prog.fn("fx_unsafe_call")
        a = f is not None and sum(1 for bb, t in f.calls() if "func" in t and (t["func"]["key"].startswith(OWNERSHIP_FORBIDDEN) or t["func"]["path"].startswith(OWNERSHIP_FORBIDDEN))) >= 2
        b = g is not None and any("func" in t and t["func"].get("unsafe") and t["func"]["key"] not in UNSAFE_ALLOWED for bb, t in g.calls())
        got["R-UNSAFEKINDS"] = a and b
    if "R-HINT" in rules:
        nsrc, res = hint_scan(v)
        bad = [b for k, tp, b in res if k == "fx_hint"]
        got["R-HINT"] = nsrc >= 1 and bool(bad) and any("allocation request" in x for x in bad[0]) and any("arithmetic" in x for x in bad[0])
    if "R-CAPFWD" in rules:
        f = prog.fn("fx_capacity")
        got["R-CAPFWD"] = f is not None and sum(1 for bb, t in f.calls() if "func" in t and t["func"]["name"] == "capacity") == 2
    if "R-SELFMADE" in rules:
        from .rules_iter import r_selfmade
        res = r_selfmade(ctx, v, fixture=True)
        good = res.get("GoodCursor<'a>") or res.get("GoodCursor") or next((r for k, r in res.items() if "GoodCursor" in k), None)
        ba = next((r for k, r in res.items() if "BadCursorA" in k), None)
        bb = next((r for k, r in res.items() if "BadCursorB" in k), None)
        got["R-SELFMADE"] = bool(good is not None and not good[0] and ba and any("without the guard" in x for x in ba[0])
                                 and bb and any("yields nothing" in x for x in bb[0]))
    if "R-ORDERPANIC" in rules:
        from .rules_bounds import orderpanic_scan
        f = prog.fn("fx_orderpanic")
        g = prog.fn("fx_orderpanic_ok")
        a = f is not None and len(orderpanic_scan(v, f)[1]) == 2
        b = g is not None and orderpanic_scan(v, g) == (1, [])
        got["R-ORDERPANIC"] = a and b
    blind = [r for r, ok in got.items() if not ok]
    if blind:
        raise CheckError("rule(s) %s do not match their instance in the positive fixture: the rule is blind" % blind)
    ctx.notes.append("positive fixture matched by %s" % sorted(got))
