"""Path-sensitive typestate exploration of one MIR body.

States are (block, env, rule-state).  `env` carries the few facts needed to prune the infeasible paths
that this crate's idioms create (DESIGN 2.6, idiom 4: flag variables correlating two branches):
known Option variants of locals, known booleans, references to such locals.
"""
from collections import deque

from .core import const_int

OPT = "std::option::Option"


class Env:
    __slots__ = ("opt", "boo", "ref")

    def __init__(self, opt=(), boo=(), ref=()):
        self.opt = dict(opt)
        self.boo = dict(boo)
        self.ref = dict(ref)

    def key(self):
        return (tuple(sorted(self.opt.items())), tuple(sorted(self.boo.items())), tuple(sorted(self.ref.items())))

    def copy(self):
        return Env(self.opt, self.boo, self.ref)

    def kill(self, l):
        self.opt.pop(l, None)
        self.boo.pop(l, None)
        self.ref.pop(l, None)


def _plain(o):
    if o["k"] in ("copy", "move") and not o["place"]["proj"]:
        return o["place"]["local"]
    return None


def step_stmt(env, s):
    if s["k"] != "assign":
        return
    pl = s["place"]
    if pl["proj"]:
        # partial write into a tracked local invalidates what we know about it
        env.kill(pl["local"])
        return
    l = pl["local"]
    rv = s["rv"]
    env.kill(l)
    k = rv["k"]
    if k == "aggregate" and rv.get("agg") == "adt" and rv.get("path") == OPT:
        env.opt[l] = rv["variant"]
    elif k == "use":
        o = rv["op"]
        src = _plain(o)
        if src is not None:
            if src in env.opt:
                env.opt[l] = env.opt[src]
            if src in env.boo:
                env.boo[l] = env.boo[src]
            if src in env.ref:
                env.ref[l] = env.ref[src]
        elif o["k"] == "const":
            if o["s"] in ("const true", "true"):
                env.boo[l] = True
            elif o["s"] in ("const false", "false"):
                env.boo[l] = False
    elif k == "ref":
        p = rv["place"]
        if not p["proj"]:
            env.ref[l] = p["local"]
    elif k == "discriminant":
        pl2 = rv["place"]
        if not pl2["proj"] and pl2["local"] in env.opt and rv.get("path") == OPT:
            env.boo[l] = env.opt[pl2["local"]] == "Some"   # Option: None = 0, Some = 1
    elif k == "unop" and rv["op"] == "Not":
        src = _plain(rv["a"])
        if src is not None and src in env.boo:
            env.boo[l] = not env.boo[src]


def step_call(env, t):
    d = t["dest"]
    if d["proj"]:
        return
    l = d["local"]
    env.kill(l)
    if "func" not in t:
        return
    key = t["func"]["key"]
    if key in ("std::option::Option::is_some", "std::option::Option::is_none") and t["args"]:
        a = _plain(t["args"][0])
        tgt = env.ref.get(a, None) if a is not None else None
        if tgt is not None and tgt in env.opt:
            v = env.opt[tgt] == "Some"
            env.boo[l] = v if key.endswith("is_some") else (not v)
    # a call that takes `&mut X` of a tracked local may change it
    for a in t["args"]:
        la = _plain(a)
        if la is not None and la in env.ref and a["place"]["ty"].startswith("&mut"):
            env.kill(env.ref[la])


def feasible_succs(fn, bb, env):
    """successor blocks of bb under env (normal edges only), with switch pruning"""
    t = fn.term(bb)
    k = t["k"]
    if k == "switch":
        l = _plain(t["discr"])
        if l is not None and l in env.boo:
            want = 1 if env.boo[l] else 0
            for v, tb in t["targets"]:
                if v == want:
                    return [tb]
            return [t["otherwise"]]
        return list(dict.fromkeys([tb for _, tb in t["targets"]] + [t["otherwise"]]))
    return fn.cfg.succ[bb]


def explore(fn, marks, init, step, is_bad_at_return, stop_edges=None, max_states=20000):
    """Generic forward typestate exploration.
    marks: bb -> list of tags applied in order when the block is executed (statements first, terminator last)
    step(state, tag, bb) -> new rule state
    Returns list of (state, path) for Return blocks reached in a state for which is_bad_at_return(state)."""
    start = (0, Env(), init)
    seen = set()
    dq = deque([(0, Env(), init, (0,))])
    bad = []
    n = 0
    while dq:
        bb, env, st, path = dq.popleft()
        key = (bb, env.key(), st)
        if key in seen:
            continue
        seen.add(key)
        n += 1
        if n > max_states:
            bad.append((st, path + ("<state budget exhausted>",)))
            break
        b = fn.blocks[bb]
        env = env.copy()
        for s in b["stmts"]:
            step_stmt(env, s)
        for tag in marks.get(bb, ()):
            st = step(st, tag, bb)
        t = b["term"]
        if t["k"] == "call":
            step_call(env, t)
        if t["k"] == "return":
            if is_bad_at_return(st):
                bad.append((st, path))
            continue
        for nb in feasible_succs(fn, bb, env):
            if stop_edges and (bb, nb) in stop_edges:
                continue
            dq.append((nb, env, st, path + (nb,) if len(path) < 60 else path))
    return bad


def path_lines(fn, path):
    out = []
    for bb in path:
        if isinstance(bb, int):
            out.append("bb%d@L%d" % (bb, fn.term(bb)["span"]["line"]))
        else:
            out.append(str(bb))
    return " -> ".join(out)
