"""Table-consistency automaton (TCA): R-GROW (map.len() never changes without the matching change of heap,
qp, size) and R-TORN (no user code runs while the tables are torn), decided together by one typestate
exploration over all feasible normal paths of every function that writes a table."""
from .core import walk, strip, term_str, component, const_int, STORE
from .paths import explore, path_lines
from .rules_decl import root_fn, is_param
from .rules_order import contains, short

ZERO = (0, 0, 0, 0)


class St:
    """automaton state (hashable tuple wrapper)"""
    __slots__ = ()


def mk(grow=ZERO, shr=ZERO, whole=ZERO, dup=False, unpaired=frozenset(), bad=None, retain=False):
    return (grow, shr, whole, dup, unpaired, bad, retain)


def norm4(c):
    m = min(c)
    if m > 0:
        c = tuple(x - m for x in c)
    return c


def consistent(st):
    grow, shr, whole, dup, unpaired, bad, retain = st
    return grow == ZERO and shr == ZERO and whole == ZERO and not dup and not unpaired and not bad and not retain


def describe(st):
    grow, shr, whole, dup, unpaired, bad, retain = st
    out = []
    names = ("map", "heap", "qp", "size")
    if grow != ZERO:
        out.append("growth group incomplete: " + ", ".join("%s+%d" % (n, c) for n, c in zip(names, grow)))
    if shr != ZERO:
        out.append("shrink group incomplete: " + ", ".join("%s-%d" % (n, c) for n, c in zip(names, shr)))
    if whole != ZERO:
        out.append("reset group incomplete: " + ", ".join("%s:%d" % (n, c) for n, c in zip(names, whole)))
    if dup:
        out.append("one slot index is duplicated in `heap` (moving hole open)")
    if unpaired:
        out.append("raw writes without their inverse-table counterpart: %s" % sorted((u[-1], u[0], u[1]) for u in unpaired))
    if retain:
        out.append("map entries were retained/dropped but the tables were not re-created")
    if bad:
        out.append(bad)
    return "; ".join(out)


IDX = {"map": 0, "heap": 1, "qp": 2, "size": 3}


def bump(c, comp, cap=2):
    l = list(c)
    l[IDX[comp]] = min(cap, l[IDX[comp]] + 1)
    return norm4(tuple(l))


def counter_locals(view, f):
    """local counters whose value is finally assigned to `size` (Store::from's idiom): -> set of locals"""
    out = set()
    for ev in view.fx.events(f):
        if ev["kind"] == "tw" and ev["comp"] == "size" and ev["how"] == "whole":
            v = ev["val"]
            if v[0] == "phi":
                out.add(v[2])
    return out


def size_delta(view, f, ev):
    """classify a whole write to `size`: '+1', '-1', '=0', '=maplen', '=counter', 'other'"""
    v = ev["val"]
    x = v
    if x[0] == "field" and x[1][0] == "binop":
        x = x[1]
    if x[0] == "binop" and x[1] in ("AddWithOverflow", "Add", "SubWithOverflow", "Sub", "AddUnchecked", "SubUnchecked"):
        a, b = x[2], x[3]
        ca = component(a)
        if ca and ca[0] == "size" and const_int(strip(b)) == 1:
            return "+1" if x[1].startswith("Add") else "-1"
        return "other"
    if const_int(strip(v)) == 0:
        return "=0"
    if v[0] == "call" and v[1].endswith("::len") and v[2] and component(v[2][0]) and component(v[2][0])[0] == "map":
        return "=maplen"
    if v[0] == "phi":
        return "=counter"
    cv = component(strip(v))
    if cv and cv[0] == "size" and ev.get("root") is not None and strip(cv[1]) != strip(ev["root"]):
        return "=maplen"   # `self.size = source.size`: the length of the store whose tables are being copied (clone_from)
    return "other"


def elem_value_kind(v):
    """value stored by a raw element write into heap: 'heapread' if it is itself a read of heap"""
    for x in walk(v):
        if x[0] == "call" and x[1].split("::")[-1] in ("get_unchecked", "get", "index", "get_unchecked_mut") and x[2]:
            c = component(x[2][0])
            if c and c[0] == "heap":
                return "heapread"
        if x[0] == "index" and component(x[1]) and component(x[1])[0] == "heap":
            return "heapread"
    return "other"


def pair_key(comp, idx, val):
    """heap[p] = x  <->  qp[x] = p  : canonical key (x, p) as strings"""
    i = strip(idx)
    if i[0] == "field" and i[2] in (0, "0"):
        i = strip(i[1])
    v = strip(val)
    if comp == "heap":
        return (term_str(v)[:60], term_str(i)[:60], hash((v, i)))
    return (term_str(i)[:60], term_str(v)[:60], hash((i, v)))


def body_marks(view, f, published_only=True):
    """-> (marks: bb -> [tags], info) for the automaton"""
    fx = view.fx
    marks = {}
    counters = counter_locals(view, f)
    n_tw = 0
    shrink_body = any(e["kind"] == "tw" and e.get("how") in ("call:swap_remove", "call:pop", "call:remove") for e in fx.events_inl(f))
    for ev in fx.events_inl(f):
        k = ev["kind"]
        bb = ev["bb"]
        tag = None
        if k == "tw":
            n_tw += 1
            comp, how = ev["comp"], ev["how"]
            if comp == "*":
                tag = ("noop",)  # whole-store swap: both stores stay consistent
            elif how == "call:push":
                tag = ("grow", comp, ev)
            elif how in ("call:swap_remove", "call:pop", "call:remove"):
                tag = ("shrink", comp, ev)
            elif how in ("call:clear", "call:truncate", "call:drain", "call:clone_from", "call:clone_into",
                         "call:std::mem::swap", "call:std::mem::replace", "call:std::mem::take"):
                # the whole table is replaced (emptied, or overwritten by a copy of another store's table): all four
                # components must be replaced together
                tag = ("whole", comp, ev)
            elif how == "call:swap":
                tag = ("swapcall", comp, ev)
            elif how == "call:extend" and comp in ("heap", "qp") and refill_of(view, f, ev) is not None:
                # `T.clear(); T.extend((0..n).map(Ctor))` after retain: the second half of re-creating the table in place (the
                # clear is the `whole` event; what is filled in is checked by the retain pattern)
                tag = ("noop",)
            elif how == "whole":
                if comp == "size":
                    d = size_delta(view, f, ev)
                    if d == "+1":
                        tag = ("grow", "size", ev)
                    elif d == "-1":
                        tag = ("shrink", "size", ev)
                    elif d == "=maplen":
                        tag = ("syncsize", ev)
                    elif d == "=0":
                        tag = ("whole", "size", ev)
                    elif d == "=counter":
                        tag = ("noop",)
                    else:
                        tag = ("badsize", ev)
                else:
                    tag = ("whole", comp, ev)
            elif how == "elem":
                # inside the shrink primitives the element writes are the index repairs (R-REPAIR's business)
                tag = ("noop",) if shrink_body else ("elem", comp, ev)
            else:
                tag = ("unknown_tw", comp, ev)
        elif k == "mw":
            mc = ev.get("mclass")
            if mc == "grow":
                tag = ("grow", "map", ev)
            elif mc == "shrink":
                tag = ("shrink", "map", ev)
                if continuation_completes(view, f, ev):
                    tag = ("noop",)  # keyed removal: the hit-closure (analysed with the map already one short) completes the group
            elif mc in ("clear", "replace"):
                tag = ("whole", "map", ev)
            elif mc == "retain":
                tag = ("retain", ev)
        if tag:
            marks.setdefault(bb, []).append(tag)
        # user code at this call?  (the call's own user code runs BEFORE its structural write: U;W)
        if "ci" in ev:
            ci = ev["ci"]
            m = ci.mruc
            if not m and ci.local_callee and "MRUC" in fx.effects.get(ci.local_callee, ()) and not ev.get("inlined"):
                m = True
            if not m:
                for c in ci.closures:
                    if "MRUC" in fx.effects.get(c, ()):
                        m = True
            if m:
                if (tag and ev.get("mclass") in ("replace", "retain")) or ev.get("mclass") == "reorder" or (
                        ev.get("kind") == "mw" and ev.get("name") in ("extend", "dedup_by", "dedup_by_key", "extract_if")):
                    # `map.clone_from(..)`: the user's Clone runs while the map is being overwritten (W;U, not U;W).
                    # `map.retain2(user predicate)`: the predicate runs while the map is being compacted; when it unwinds,
                    # indexmap keeps the entries it has moved but does not rebuild its hash table, so later map operations can
                    # panic half-way through THEIR mutation and the map ends up longer than the tables (observed: an
                    # out-of-bounds qp.get_unchecked in change_priority_by after a caught panic in retain's predicate)
                    marks.setdefault(bb, []).append(("mruc", ev))
                else:
                    marks.setdefault(bb, []).insert(len(marks.get(bb, [])) - (1 if tag else 0), ("mruc", ev))
    # local counter increments (unpublished construction idiom)
    for l in counters:
        for d in f.defs.get(l, []):
            if d[0] == "stmt":
                v = view.vp.rvalue(f, d[3]["rv"])
                x = v[1] if v[0] == "field" and v[1][0] == "binop" else v
                if x[0] == "binop" and x[1].startswith("Add") and const_int(strip(x[3])) == 1:
                    marks.setdefault(d[1], []).append(("grow", "size", {"span": d[3]["span"], "counter": l}))
    return marks, n_tw


def continuation_completes(view, f, ev):
    """map.swap_remove_full(key).map(|hit| {...}): the closure body is analysed separately with the initial
    state `map one entry short`; in the parent the keyed removal is then neutral (a miss changes nothing)"""
    from .core import OPTION_PAYLOAD_COMBINATORS
    site = view.vp.call_term(f, ev["bb"], ev["ci"].t)
    for bb, t in f.calls():
        if "func" in t and t["func"]["key"] in OPTION_PAYLOAD_COMBINATORS and t["args"]:
            recv = view.vp.operand(f, t["args"][0])
            if contains(recv, site):
                for a in t["args"][1:]:
                    if a["k"] in ("copy", "move") and not a["place"]["proj"] and f.local_ty(a["place"]["local"]).get("k") == "closure":
                        return True
    return False


def make_step(view, f, published):
    def step(st, tag, bb):
        grow, shr, whole, dup, unpaired, bad, retain = st
        k = tag[0]
        if k == "noop":
            return st
        if k == "mruc":
            if published and not consistent(st) and not bad:
                ev = tag[1]
                bad = "user code can run here (%s, line %d) while: %s" % (ev.get("key"), ev["span"]["line"], describe(st))
            return (grow, shr, whole, dup, unpaired, bad, retain)
        if k == "grow":
            grow = bump(grow, tag[1])
        elif k == "shrink":
            shr = bump(shr, tag[1])
        elif k == "whole":
            c = tag[1]
            whole = bump(whole, c)
            if retain and c != "map":
                # re-creating the tables after retain: handled by the retain pattern check; count it
                pass
        elif k == "syncsize":
            # `size = map.len()`: part of a re-creation (after retain / a whole-map replacement), or - when the size has been
            # lagging behind a growth / shrink of the map - what brings it level with the map again
            if retain or whole != ZERO:
                whole = bump(whole, "size")
            elif grow == ZERO and shr == ZERO:
                pass   # nothing is pending: the invariant says size == map.len() already
            else:
                g, sh = list(grow), list(shr)
                g[IDX["size"]] = g[IDX["map"]]
                sh[IDX["size"]] = sh[IDX["map"]]
                grow, shr = norm4(tuple(g)), norm4(tuple(sh))
        elif k == "retain":
            retain = True
        elif k == "badsize":
            bad = bad or "size is changed by something other than +1 / -1 / =0 / =map.len() (line %d)" % tag[1]["span"]["line"]
        elif k == "unknown_tw":
            bad = bad or "unrecognised raw table write %s on %s (line %d)" % (tag[2]["how"], tag[1], tag[2]["span"]["line"])
        elif k == "swapcall":
            pk = ("swap", tag[1])
            other = ("swap", "heap" if tag[1] == "qp" else "qp")
            if other in unpaired:
                unpaired = unpaired - {other}
            else:
                unpaired = unpaired | {pk}
        elif k == "elem":
            comp, ev = tag[1], tag[2]
            if comp == "heap":
                if elem_value_kind(ev["val"]) == "heapread":
                    dup = True
                else:
                    dup = False
            pk = pair_key(comp, ev["idx"], ev["val"])
            if pk in unpaired and (pk + (("heap" if comp == "qp" else "qp"),)) in unpaired:
                pass
            tagged = pk + (comp,)
            other = pk + (("heap" if comp == "qp" else "qp"),)
            if other in unpaired:
                unpaired = unpaired - {other}
            else:
                unpaired = unpaired | {tagged}
        # retain closes when the three tables have been re-created
        if retain and whole[1:] == (0, 0, 0) and k == "whole":
            pass
        return (grow, shr, whole, dup, unpaired, bad, retain)
    return step


def published_store(view, f):
    """does f write tables of a store reachable through a `&mut` parameter (published) ?"""
    for ev in view.fx.events_inl(f):
        if ev["kind"] in ("tw", "mw") and ev.get("root") is not None:
            r = strip(ev["root"])
            if r[0] == "field" and r[2] == "store":
                r = strip(r[1])
            if r[0] == "param":
                return True
            if r[0] == "upvar" or r[0] == "some":
                return True
    return False


def refill_of(view, f, ev):
    """ev: `T.extend(..)` on a table.  -> the `T.clear()` event it completes, when f is a retain body, the clear dominates the
    extend and no other write of T lies between them; else None"""
    evs = view.fx.events_inl(f)
    if not any(e["kind"] == "mw" and e.get("mclass") == "retain" for e in evs):
        return None
    comp = ev["comp"]
    clears = [e for e in evs if e["kind"] == "tw" and e["comp"] == comp and e.get("how") == "call:clear"]
    if len(clears) != 1:
        return None
    c = clears[0]
    if not (c["bb"] == ev["bb"] or f.cfg.dominates(c["bb"], ev["bb"])):
        return None
    others = [e for e in evs if e["kind"] == "tw" and e["comp"] == comp and e is not c and e is not ev]
    if others:
        return None
    return c


def retain_pattern_ok(view, f):
    """Store::retain_mut: after retain2, `if map.len() != size { size = map.len(); heap = identity; qp = identity }`"""
    vp = view.vp
    evs = view.fx.events_inl(f)
    ret = [e for e in evs if e["kind"] == "mw" and e.get("mclass") == "retain"]
    if not ret:
        return None
    whole = {}
    for e in evs:
        if e["kind"] == "tw" and e["how"] == "whole":
            whole[e["comp"]] = e
    refilled = set()
    for e in evs:
        if e["kind"] == "tw" and e.get("how") == "call:extend" and e["comp"] in ("heap", "qp") and e["comp"] not in whole and "ci" in e:
            c = refill_of(view, f, e)
            a = view.fx.args_vp(e["ci"])
            if c is not None and len(a) == 2:
                # cleared and refilled in place: judged like `T = <what is extended from>.collect()`
                whole[e["comp"]] = dict(e, val=a[1])
                refilled.add(e["comp"])
    missing = [c for c in ("size", "heap", "qp") if c not in whole]
    if missing:
        return False, "after retain the components %s are not re-created" % missing
    if size_delta(view, f, whole["size"]) != "=maplen":
        return False, "size must become map.len() (found %s)" % term_str(whole["size"]["val"])[:60]
    for c, ctor in (("heap", "Index"), ("qp", "Position")):
        v = whole[c]["val"]
        names = [x[1].split("::")[-1] for x in walk(v) if x[0] == "call"]
        def is_ctor(key):
            # the tuple-struct constructor itself, or a function that only applies it (`Index::new(i) = Index(i)`)
            if key.endswith("::" + ctor):
                return True
            g = view.prog.fn(key)
            if g is None or not g.blocks:
                return False
            from .rules_decl import ret_term as _rt
            r = strip(_rt(view, g))
            return r[0] == "adt" and r[1].endswith("::" + ctor) and len(r[3]) == 1 and is_param(r[3][0], 1)
        has_ctor = any(x[0] == "fnconst" and is_ctor(x[1]) for x in walk(v))
        rng = [x for x in walk(v) if x[0] == "adt" and x[1].endswith("Range") and len(x[3]) == 2]
        end = strip(rng[0][3][1]) if rng else None
        end_ok = end is not None and ((component(end) and component(end)[0] == "size") or (
            end[0] == "call" and end[1].endswith("::len") and end[2] and component(end[2][0]) and component(end[2][0])[0] == "map"))
        ok = ("collect" in names or c in refilled) and "map" in names and has_ctor and rng and const_int(strip(rng[0][3][0])) == 0 and end_ok
        if not ok:
            ok = identity_push_loop(view, f, whole[c], ctor)
        if not ok:
            return False, "%s must be re-created as the identity table (0..size).map(%s).collect() (found %s)" % (c, ctor, term_str(v)[:90])
    # the guard: re-creation may be skipped only when map.len() == size
    blocks = {whole[c]["bb"] for c in whole}
    rb = ret[0]["bb"]
    for bi in sorted(f.cfg.reach):
        t = f.term(bi)
        if t["k"] == "switch":
            d = strip(vp.operand(f, t["discr"]))
            if d[0] == "binop" and d[1] in ("Ne", "Eq"):
                sides = [d[2], d[3]]
                has_len = any(x[0] == "call" and x[1].endswith("::len") and x[2] and component(x[2][0]) and component(x[2][0])[0] == "map" for x in sides)
                has_size = any(component(x) and component(x)[0] == "size" for x in sides)
                if has_len and has_size:
                    zero = [tb for v, tb in t["targets"] if v == 0][0]
                    skip_edge = (bi, zero) if d[1] == "Ne" else (bi, t["otherwise"])
                    p = f.cfg.escape_path(rb, blocks, stop_edges={skip_edge})
                    if p is None:
                        return True, "tables re-created unless map.len() == size"
    p = f.cfg.escape_path(rb, blocks)
    if p is None:
        return True, "tables re-created unconditionally"
    return False, "a path after retain skips the re-creation under an unrecognised guard: %s" % p


def identity_push_loop(view, f, ev, ctor):
    """the table is assigned a local vector that was filled by `for k in 0..n { v.push(Ctor(k)) }` with n = map.len() / size
    (the loop form of `(0..n).map(Ctor).collect()`)"""
    vp = view.vp
    st = f.blocks[ev["bb"]]["stmts"][ev["si"]] if isinstance(ev.get("si"), int) else None
    if st is None or st["rv"]["k"] != "use" or st["rv"]["op"]["k"] not in ("move", "copy") or st["rv"]["op"]["place"]["proj"]:
        return False
    L = st["rv"]["op"]["place"]["local"]
    ds = f.defs.get(L, [])
    hops = 0
    while len(ds) == 1 and ds[0][0] == "stmt" and ds[0][3]["rv"]["k"] == "use" and ds[0][3]["rv"]["op"]["k"] in ("move", "copy") \
            and not ds[0][3]["rv"]["op"]["place"]["proj"] and hops < 4:
        L = ds[0][3]["rv"]["op"]["place"]["local"]
        ds = f.defs.get(L, [])
        hops += 1
    if len(ds) != 1 or ds[0][0] != "call" or ds[0][2].get("func", {}).get("name") not in ("with_capacity", "new"):
        return False
    pushes = []
    for bb, t in f.calls():
        if "func" not in t or t["func"]["name"] != "push" or len(t["args"]) != 2:
            continue
        a0 = t["args"][0]
        if a0["k"] not in ("copy", "move") or a0["place"]["proj"]:
            continue
        d0 = f.defs.get(a0["place"]["local"], [])
        if len(d0) == 1 and d0[0][0] == "stmt" and d0[0][3]["rv"]["k"] == "ref" and d0[0][3]["rv"]["place"]["local"] == L and not d0[0][3]["rv"]["place"]["proj"]:
            pushes.append((bb, t))
    if len(pushes) != 1:
        return False
    bb, t = pushes[0]
    lp = f.cfg.in_loop(bb)
    if not lp:
        return False
    v = strip(vp.operand(f, t["args"][1]))
    if not (v[0] == "adt" and v[1].endswith("::" + ctor) and len(v[3]) == 1):
        return False
    k = strip(v[3][0])
    rng = [x for x in walk(k) if x[0] == "adt" and x[1].endswith("Range") and len(x[3]) == 2]
    nxt = any(x[0] == "call" and x[1].endswith("::next") for x in walk(k))
    if not (rng and nxt and k[0] in ("some", "field", "downcast")):
        return False
    end = strip(rng[0][3][1])
    end_ok = (component(end) and component(end)[0] == "size") or (
        end[0] == "call" and end[1].endswith("::len") and end[2] and component(end[2][0]) and component(end[2][0])[0] == "map")
    return bool(const_int(strip(rng[0][3][0])) == 0 and end_ok)


def absent_key_guard(view, f, ev):
    """(g1) a growth map write executes only when the key is absent"""
    if ev.get("via_entry"):
        return True, "VacantEntry::%s (the variant is the key-absent fact)" % ev["name"]
    vp = view.vp
    ci = ev["ci"]
    args = ev.get("args_sub") or view.fx.args_vp(ci)
    key = strip(args[1]) if len(args) > 1 else None
    # dominated by the false edge of contains_key(map, &key) on the same key
    for bi in sorted(f.cfg.reach):
        t = f.term(bi)
        if t["k"] != "switch":
            continue
        d = strip(vp.operand(f, t["discr"]))
        neg = False
        if d[0] == "unop" and d[1] == "Not":
            d = strip(d[2])
            neg = True
        if d[0] == "call" and d[1].endswith("::contains_key") and len(d[2]) == 2:
            k2 = strip(d[2][1])
            same_map = component(d[2][0]) and component(args[0]) and component(d[2][0]) == component(args[0])
            if same_map and key is not None and k2 == key:
                zero = [tb for v, tb in t["targets"] if v == 0]
                absent_target = (t["otherwise"] if neg else (zero[0] if zero else None))
                if absent_target is not None and f.cfg.dominates(absent_target, ev["bb"]) and len(f.cfg.pred[absent_target]) == 1:
                    return True, "dominated by the key-absent edge of contains_key on the same key"
    # dominated by the None edge of a keyed lookup of the same key in the same map
    from .core import edge_presence as _ep
    for bi in sorted(f.cfg.reach):
        t = f.term(bi)
        if t["k"] != "switch" or len(f.cfg.succ[bi]) < 2:
            continue
        d = strip(vp.operand(f, t["discr"]))
        if d[0] != "discr":
            continue
        for x in walk(d):
            if x[0] == "call" and x[1].split("::")[-1] in ("get", "get_mut", "get_full", "get_full_mut", "get_full_mut2", "get_index_of", "get_key_value") \
                    and len(x[2]) == 2 and component(x[2][0]) and component(args[0]) and component(x[2][0]) == component(args[0]) \
                    and key is not None and strip(x[2][1]) == key:
                for nb in f.cfg.succ[bi]:
                    if _ep(d, t, nb) == "absent" and f.cfg.dominates(nb, ev["bb"]) and len(f.cfg.pred[nb]) == 1:
                        return True, "dominated by the None edge of %s on the same key" % x[1].split("::")[-1]
    # its result controls the growth: `if map.insert(k, v).is_none() { grow }`
    site = vp.call_term(f, ev["bb"], ci.t)
    for bi in sorted(f.cfg.reach):
        t = f.term(bi)
        if t["k"] != "switch":
            continue
        d = strip(vp.operand(f, t["discr"]))
        if d[0] == "call" and d[1].split("::")[-1] in ("is_none", "is_some") and contains(d, site):
            return "controls", (bi, d[1].split("::")[-1], t)
        if d[0] == "discr" and contains(d, site) and len(f.cfg.succ[bi]) >= 2:
            # `if let None = map.insert(k, v)` / `match map.insert(k, v) { None => grow, Some(_) => {} }`
            return "controls", (bi, ("discr", d), t)
    return False, "neither a VacantEntry insert, nor guarded by contains_key on the same key, nor inspected"


def r_tables(ctx, view, want=("R-GROW", "R-TORN"), only=None):
    """runs the automaton over every body that writes a table or structurally writes the map"""
    prog = view.prog
    fx = view.fx
    ctx.cur = view
    n_bodies = 0
    n_mruc_sites = 0
    for f in sorted(prog.fns.values(), key=lambda x: x.key):
        evs = fx.events_inl(f)
        if not any(e["kind"] in ("tw",) or (e["kind"] == "mw" and e.get("mclass") in ("grow", "shrink", "clear", "retain")) for e in evs):
            continue
        if not f.is_closure and fx.inlined_everywhere(f.key):
            continue   # a new private helper: analysed as part of each of its callers
        if only and not only(f):
            continue
        n_bodies += 1
        published = published_store(view, f)
        marks, n_tw = body_marks(view, f)
        n_mruc_sites += sum(1 for ts in marks.values() for t in ts if t[0] == "mruc")
        init = mk()
        # closure that is the continuation of a successful keyed removal: the map already lost one entry
        if f.is_closure:
            use = view.vp.closure_use(f.key)
            if use is not None:
                pf, bb, t, argpos = use
                recv = view.vp.operand(pf, t["args"][0]) if t["args"] else None
                if recv is not None:
                    for x in walk(recv):
                        if x[0] == "call" and x[1].split("::")[-1] in ("swap_remove_full", "swap_remove", "swap_remove_entry", "shift_remove_full"):
                            init = mk(shr=(1, 0, 0, 0))
        step = make_step(view, f, published)
        key = short(f.key)
        # special edges for growth controlled by the result of insert (serde's visit_seq after repair)
        stop_edges = set()
        g1_obs = []
        for e in evs:
            if e["kind"] == "mw" and e.get("mclass") == "grow":
                r = absent_key_guard(view, f, e)
                if r[0] == "controls":
                    bi, nm, t = r[1]
                    if isinstance(nm, tuple):
                        from .core import edge_presence as _ep
                        pres = [nb for nb in f.cfg.succ[bi] if _ep(nm[1], t, nb) == "present"]
                        if len(pres) != 1:
                            g1_obs.append((e, False, "the Option result of the insert is matched, but its Some edge is not identifiable", None))
                            continue
                        present_edge = (bi, pres[0])
                    else:
                        zero = [tb for v, tb in t["targets"] if v == 0][0]
                        present_edge = (bi, zero) if nm == "is_none" else (bi, t["otherwise"])
                    g1_obs.append((e, True, "its Option result is inspected; tables grow only on the key-absent edge", present_edge))
                else:
                    g1_obs.append((e, r[0], r[1], None))
        # a keyed removal handled in the same body (`let (i, k, v) = map.swap_remove_full(key)?;` / match): on the edge
        # where the Option is None nothing was removed
        miss_edges = set()
        from .core import edge_presence
        for e in evs:
            if e["kind"] == "mw" and e.get("mclass") == "shrink" and not continuation_completes(view, f, e):
                site = view.vp.call_term(f, e["bb"], e["ci"].t)
                for bi in sorted(f.cfg.reach):
                    tt = f.term(bi)
                    if tt["k"] != "switch":
                        continue
                    dd = strip(view.vp.operand(f, tt["discr"]))
                    if dd[0] == "discr" and contains(dd, site):
                        for nb in f.cfg.succ[bi]:
                            if edge_presence(dd, tt, nb) == "absent":
                                miss_edges.add((bi, nb))
        # the retain pattern is checked structurally; the automaton then treats the re-creation as closing it
        rp = retain_pattern_ok(view, f)
        bad_ret = explore_tca(view, f, marks, init, step, g1_obs, rp, miss_edges)
        torn = [b for b in bad_ret if b[0] == "torn"]
        grow = [b for b in bad_ret if b[0] == "return"]
        if "R-TORN" in want and published:
            # the `Store::from` idiom (the element count kept in a local counter, written to `size` at the end) is fine on a store
            # nobody else can see; on a published store every user call inside the loop sees - and a panic there leaves -
            # a `size` that is behind the tables
            cl = counter_locals(view, f)
            if cl:
                for lp in f.cfg.loops:
                    body = set(lp["body"])
                    grows = [b for b in body for tg in marks.get(b, []) if tg[0] == "grow" and tg[1] in ("heap", "qp", "map")]
                    users = [(b, tg[1]) for b in body for tg in marks.get(b, []) if tg[0] == "mruc"]
                    if grows and users:
                        ctx.ob("R-TORN", key + ":size-in-a-local-counter", False, f.loc(users[0][1].get("span")),
                               "the tables of a published store grow inside this loop while the element count is kept in a local counter "
                               "(written to `size` only afterwards): user code that runs in the loop (%s) sees, and a panic in it leaves, "
                               "a size that is behind the tables" % (users[0][1].get("name") or users[0][1].get("key")))
                        break
        if "R-TORN" in want:
            ctx.ob("R-TORN", key, not torn, f.loc(),
                   ("%s store; %d raw table writes; user code never runs inside a table transaction" % ("published" if published else "unpublished (constructor-owned)", n_tw))
                   if not torn else "%s  [path %s]" % (torn[0][1], path_lines(f, torn[0][2])))
        if "R-GROW" in want:
            ctx.ob("R-GROW", key + ":groups-complete", not grow, f.loc(),
                   "every feasible path returns with map, heap, qp and size changed by the same amount" if not grow else
                   "at return: %s  [path %s]" % (grow[0][1], path_lines(f, grow[0][2])))
            for (e, ok, why, _) in g1_obs:
                ctx.ob("R-GROW", "%s:g1:%s" % (key, e["name"]), bool(ok), f.loc(e["span"]), "map growth `%s`: %s" % (e["name"], why))
            if rp is not None:
                ctx.ob("R-GROW", key + ":retain-group", rp[0], f.loc(), rp[1])
    ctx.floor("R-GROW/R-TORN:bodies", n_bodies, 14 if not only else 1)
    if "R-TORN" in want and not only:
        ctx.floor("R-TORN:user-code-sites", n_mruc_sites, 10)
    # sealed primitive: Store::swap is exactly qp.swap(heap[a], heap[b]); heap.swap(a, b)
    if not only:
        swap_shape(ctx, view, want)


def explore_tca(view, f, marks, init, step, g1_obs, rp, miss_edges=()):
    """returns list of ('torn'|'return', description, path)"""
    out = []
    controls = [(e, edge) for (e, ok, why, edge) in g1_obs if edge is not None]

    # wrap step to (a) implement insert-result-controlled growth: on the key-present edge the map did not grow
    def step2(st, tag, bb):
        st2 = step(st, tag, bb)
        return st2

    # For result-controlled growth we model the map write as 'maybe grow': explore twice is unnecessary:
    # the present-edge is where map growth did not happen, so cancel the pending map count there.
    edge_fix = {edge: e for (e, edge) in controls}

    from .paths import Env, step_stmt, step_call, feasible_succs
    from collections import deque
    seen = set()
    dq = deque([(0, Env(), init, (0,))])
    n = 0
    while dq:
        bb, env, st, path = dq.popleft()
        key = (bb, env.key(), st)
        if key in seen:
            continue
        seen.add(key)
        n += 1
        if n > 40000:
            out.append(("return", "state budget exhausted", path))
            break
        b = f.blocks[bb]
        env = env.copy()
        for s in b["stmts"]:
            step_stmt(env, s)
        for tag in marks.get(bb, ()):
            st = step(st, tag, bb)
        # retain: once heap, qp and size have all been re-created the retain transaction is closed
        grow, shr, whole, dup, unpaired, bad, retain = st
        if retain and rp is not None and rp[0]:
            if whole == (0, 0, 0, 0) or whole[1:] == (1, 1, 1) or whole == (0, 1, 1, 1):
                pass
        st = (grow, shr, whole, dup, unpaired, bad, retain)
        t = b["term"]
        if t["k"] == "call":
            step_call(env, t)
        if bad and not any(o[0] == "torn" for o in out):
            out.append(("torn", bad, path))
        if t["k"] == "return":
            g2, s2, w2, d2, u2, b2, r2 = st
            # retain: map shrank by an unknown amount; the structural pattern check (rp) decides it
            if r2 and rp is not None and rp[0]:
                w2 = ZERO if (w2[1:] in ((1, 1, 1), (0, 0, 0))) else w2
                r2 = False
            chk = (g2, s2, w2, d2, u2, None, r2)
            if not consistent(chk):
                out.append(("return", describe(chk), path))
            continue
        for nb in feasible_succs(f, bb, env):
            st_n = st
            if (bb, nb) in edge_fix:
                g = list(st[0])
                if g[0] > 0:
                    g[0] -= 1
                else:
                    # counts were normalised: the other three are one ahead -> undo by bumping none
                    pass
                st_n = (norm4(tuple(g)),) + st[1:]
            if (bb, nb) in miss_edges:
                sh = list(st_n[1])
                if sh[0] > 0:
                    sh[0] -= 1
                st_n = (st_n[0], norm4(tuple(sh))) + st_n[2:]
            dq.append((nb, env, st_n, path + (nb,) if len(path) < 60 else path))
    return out


def swap_shape(ctx, view, want):
    prog = view.prog
    f = prog.fn("store::Store::swap")
    ctx.anchor("Store::swap", f is not None)
    evs = [e for e in view.fx.events(f) if e["kind"] == "tw"]
    ok = len(evs) == 2 and {e["comp"] for e in evs} == {"heap", "qp"} and all(e["how"] == "call:swap" for e in evs)
    why = "Store::swap = qp.swap(heap[a].0, heap[b].0); heap.swap(a.0, b.0)"
    if ok:
        hq = {e["comp"]: e for e in evs}
        ha = view.fx.args_vp(hq["heap"]["ci"])
        qa = view.fx.args_vp(hq["qp"]["ci"])

        def is_p0(t, idx):
            t = strip(t)
            return t[0] == "field" and t[2] in (0, "0") and is_param(t[1], idx)

        def heap_at(t, idx):
            t = strip(t)
            if t[0] == "field" and t[2] in (0, "0"):
                t = strip(t[1])
            return t[0] == "call" and t[1].split("::")[-1] in ("get_unchecked", "index") and component(t[2][0]) and component(t[2][0])[0] == "heap" and is_p0(t[2][1], idx)

        ok = (is_p0(ha[1], 2) and is_p0(ha[2], 3) and heap_at(qa[1], 2) and heap_at(qa[2], 3)
              and hq["qp"]["bb"] in f.cfg.dom[hq["heap"]["bb"]])
        if not ok:
            why = "Store::swap must exchange heap[a],heap[b] and qp[heap[a]],qp[heap[b]] (reading heap before swapping it)"
    mr = [e for e in view.fx.events(f) if "ci" in e and e["ci"].mruc]
    if "R-TORN" in want:
        ctx.ob("R-TORN", "Store::swap:sealed", ok and not mr, f.loc(), why)
    if "R-GROW" in want:
        ctx.ob("R-GROW", "Store::swap:shape", ok, f.loc(), why)


def r_repair(ctx, view):
    """index repairs of the shrink primitives: after `T.swap_remove(k)` the entry moved into slot k must be
    re-linked, i.e. a guard `k.0 < size` is reached on every path and its true side performs a repair write"""
    prog = view.prog
    vp = view.vp
    ctx.cur = view
    n = 0
    for f in sorted(prog.fns.values(), key=lambda x: x.key):
        evs = view.fx.events(f)
        srs = [e for e in evs if e["kind"] == "tw" and e.get("how") == "call:swap_remove" and e["comp"] in ("heap", "qp")]
        if not srs:
            continue
        elem_blocks = {e["bb"] for e in evs if e["kind"] == "tw" and e.get("how") == "elem"}
        for e in srs:
            n += 1
            k = strip(e["idx"])
            if k[0] == "field" and k[2] in (0, "0"):
                k = strip(k[1])
            guards = []
            for bi in sorted(f.cfg.reach):
                t = f.term(bi)
                if t["k"] != "switch":
                    continue
                d = strip(vp.operand(f, t["discr"]))
                if d[0] == "binop" and d[1] in ("Lt", "Gt", "Ge", "Le"):
                    a, b, op = d[2], d[3], d[1]
                    if op in ("Gt", "Le"):
                        a, b = b, a
                        op = {"Gt": "Lt", "Le": "Ge"}[op]
                    a = strip(a)
                    if a[0] == "field" and a[2] in (0, "0"):
                        a = strip(a[1])
                    cb = component(b)
                    if a == k and cb and cb[0] == "size":
                        zero = [tb for v, tb in t["targets"] if v == 0][0]
                        true_t = t["otherwise"] if op == "Lt" else zero
                        false_t = zero if op == "Lt" else t["otherwise"]
                        guards.append((bi, true_t, false_t))
            key = "%s:%s.swap_remove" % (short(f.key), e["comp"])
            if not guards:
                ctx.ob("R-REPAIR", key, False, f.loc(e["span"]),
                       "no guard `%s.0 < size` follows %s.swap_remove(%s): the entry moved into the vacated slot is never re-linked" % (
                           term_str(k)[:40], e["comp"], term_str(k)[:40]))
                continue
            gb, true_t, false_t = guards[0]
            p = f.cfg.escape_path(e["bb"], {gb}) if e["bb"] != gb else None
            if p is not None:
                ctx.ob("R-REPAIR", key, False, f.loc(e["span"]),
                       "a path from %s.swap_remove to the return skips the repair guard `%s.0 < size`: %s" % (e["comp"], term_str(k)[:40], path_lines(f, p)))
                continue
            # true side repairs: every path from true_t to the return/join passes an element write ... unless it rejoins at false_t first
            # inside the guard a checked access to a table (`if let Some(slot) = qp.get_mut(i)`) is the checked spelling of the
            # unchecked one: its failing edge is not a way around the repair (R-PRIM compares the index used)
            from .core import edge_presence as _ep
            stops = {(gb, false_t)}
            for bi2 in sorted(f.cfg.reach):
                t2 = f.term(bi2)
                if t2["k"] != "switch" or len(f.cfg.succ[bi2]) < 2:
                    continue
                d2 = strip(vp.operand(f, t2["discr"]))
                if d2[0] == "discr" and any(x[0] == "call" and x[1].split("::")[-1] in ("get", "get_mut") and x[2] and component(x[2][0])
                                            and component(x[2][0])[0] in ("heap", "qp") for x in walk(d2)):
                    for nb in f.cfg.succ[bi2]:
                        if _ep(d2, t2, nb) == "absent":
                            stops.add((bi2, nb))
            joined = f.cfg.escape_path(gb, elem_blocks, stop_edges=stops, targets=set(f.cfg.returns) | {false_t})
            ok = joined is None or true_t in elem_blocks
            ctx.ob("R-REPAIR", key, ok, f.loc(e["span"]),
                   "guard `%s.0 < size` reached on every path; its true side re-links the moved entry" % term_str(k)[:40] if ok else
                   "the true side of the repair guard performs no index repair on path %s" % path_lines(f, joined))
    ctx.floor("R-REPAIR", n, 4)


# ------------------------------------------------------------------------------------------
# R-GROWVAL: the element pushed onto heap / qp when the store grows is the new entry's own number
# ------------------------------------------------------------------------------------------
FRESH_STORE_CTORS = ("with_capacity_and_hasher", "with_hasher", "with_default_hasher", "default", "new", "with_capacity")


def _single_def(f, l):
    ds = f.defs.get(l, [])
    if len(ds) == 1 and not f.locals[l]["arg"] and not f.partial.get(l):
        return ds[0]
    return None


def trace_quantity(view, f, o, depth=0):
    """follow the operand `o` backwards through single-assignment copies, the Position/Index constructors and the
    checked-arithmetic tuple projections to the place where its number comes from:
    ('read', quantity, bb) | ('counter', local) | ('const', n) | ('unknown', why)"""
    if depth > 12:
        return ("unknown", "too deep")
    if o["k"] == "const":
        n = const_int(("const", o["s"]))
        return ("const", n) if n is not None else ("unknown", o["s"])
    pl = o["place"]
    l = pl["local"]
    proj = [e for e in pl["proj"]]
    # reads of the size field:  (*_1).size , (*_1).store.size
    if proj and proj[-1]["k"] == "field" and proj[-1].get("name") == "size" and proj[-1].get("of") == STORE:
        return ("read", "size", None)   # caller supplies the block
    # `*size` where `let Store { size, .. } = self` (a reference to the size field, taken once)
    if len(proj) == 1 and proj[0]["k"] == "deref":
        ds0 = f.defs.get(l, [])   # writes THROUGH the reference (`*size += 1`) do not redefine the reference
        d0 = ds0[0] if len(ds0) == 1 and not f.locals[l]["arg"] else None
        if d0 is not None and d0[0] == "stmt" and d0[3]["rv"]["k"] == "ref":
            pp = d0[3]["rv"]["place"]["proj"]
            if pp and pp[-1]["k"] == "field" and pp[-1].get("name") == "size" and pp[-1].get("of") == STORE:
                return ("read", "size", None)
    d = _single_def(f, l)
    if d is None:
        ds = f.defs.get(l, [])
        if len(ds) > 1 and all(x[0] == "stmt" for x in ds):
            return ("counter", l)
        return ("unknown", "local _%d has %d definitions" % (l, len(ds)))
    # `.0` of a Position/Index or of a checked-arithmetic pair is looked through
    if d[0] == "call":
        t = d[2]
        if "func" not in t:
            return ("unknown", "indirect call")
        nm = t["func"]["name"]
        ci = view.fx.call_info(f, d[1])
        args = view.fx.args_vp(ci)
        if nm == "len" and args:
            a = strip(args[0])
            c = component(a)
            if c and c[0] in ("map", "heap", "qp"):
                return ("read", c[0] + ".len", d[1])
            if ci.local_callee and ci.local_callee.split("::")[-1] == "len":
                return ("read", "size", d[1])   # Store::len / queue len return the size field (R-READERS)
        if nm == "index" and t["func"]["key"].startswith("indexmap::map::") and "Entry" in t["func"]["key"]:
            return ("read", "entry.index", d[1])
        return ("unknown", "result of %s" % t["func"]["key"])
    s = d[3]
    rv = s["rv"]
    if rv["k"] == "use":
        r = trace_quantity(view, f, rv["op"], depth + 1)
        if r[0] == "read" and r[2] is None:
            return ("read", r[1], d[1])
        return r
    if rv["k"] == "aggregate" and rv.get("agg") == "adt" and rv.get("path", "").split("::")[-1] in ("Position", "Index") and len(rv["ops"]) == 1:
        r = trace_quantity(view, f, rv["ops"][0], depth + 1)
        if r[0] == "read" and r[2] is None:
            return ("read", r[1], d[1])
        return r
    if rv["k"] == "cast":
        return trace_quantity(view, f, rv["op"], depth + 1)
    return ("unknown", "computed by %s" % rv["k"])


def r_growval(ctx, view, only=None):
    """R-GROWVAL.  Every `heap.push(Index(n))` / `qp.push(Position(n))` of a growth group pushes the number of the entry
    being added: n is read from the length (`size`, `len()`, the map's or the table's own length, the vacant entry's
    index) at a point where that length has not yet grown in this group, and nothing but the group's own growth happens
    between the read and the push; or n is a local counter that starts at the length (0 on a store created in the same
    function) under the same conditions, moves by +1 only and is finally assigned to `size` (the automaton pairs its
    increments with the pushes)."""
    from .rules_bounds import RB
    prog = view.prog
    fx = view.fx
    ctx.cur = view
    rb = RB(view)
    n = 0
    for f in sorted(prog.fns.values(), key=lambda x: x.key):
        if only and not only(f):
            continue
        evs = fx.events(f)
        pushes = [e for e in evs if e["kind"] == "tw" and e.get("how") == "call:push" and e["comp"] in ("heap", "qp")]
        if not pushes:
            continue
        cfg = f.cfg
        lcb = rb.len_change_blocks(f)
        back = {(a, h) for lp in cfg.loops for (a, h) in lp["backedges"]}

        def fwd(frm, stop=None):
            """blocks reachable from frm along forward (non back-edge) edges"""
            seen = {frm}
            st = [frm]
            while st:
                x = st.pop()
                for y in cfg.succ[x]:
                    if (x, y) in back or y in seen:
                        continue
                    seen.add(y)
                    st.append(y)
            return seen

        def growth_blocks(comp):
            out = set()
            for e in evs:
                if comp == "size" and e["kind"] == "tw" and e["comp"] == "size" and e.get("how") == "whole" and size_delta(view, f, e) in ("+1", "other"):
                    out.add(e["bb"])   # (a whole-store exchange or a reset is not growth)
                if comp == "map" and e["kind"] == "mw" and e.get("mclass") == "grow":
                    out.add(e["bb"])
                if comp in ("heap", "qp") and e["kind"] == "tw" and e["comp"] == comp and e.get("how") == "call:push":
                    out.add(e["bb"])
            return out

        own_growth = growth_blocks("size") | growth_blocks("map") | growth_blocks("heap") | growth_blocks("qp")

        def check_read(q, rbb, pbb):
            comp = {"size": "size", "map.len": "map", "entry.index": "map", "heap.len": "heap", "qp.len": "qp"}[q]
            # (A) the quantity has not yet grown in this group when it is read
            for g in growth_blocks(comp):
                if g != rbb and rbb in fwd(g):
                    return False, "the %s is read (bb%d) after it has already grown in the same group (bb%d)" % (q, rbb, g)
            # (B) between the read and the push only the group's own growth happens
            region = fwd(rbb) & {b for b in cfg.reach if pbb in fwd(b)}
            for b in sorted(region - {rbb, pbb}):
                if b in lcb and b not in own_growth:
                    return False, "between the read of %s (bb%d) and the push, bb%d (line %d) changes the length or exchanges the store" % (
                        q, rbb, b, f.term(b)["span"]["line"])
                if b in lcb and lcb[b][0] and b in own_growth:
                    return False, "between the read of %s (bb%d) and the push, bb%d removes elements" % (q, rbb, b)
            return True, "%s read at bb%d, before it grows; only the group's own growth lies between" % (q, rbb)

        for e in pushes:
            t = f.term(e["bb"])
            n += 1
            key = "%s:%s.push" % (short(f.key), e["comp"])
            if len(t["args"]) < 2:
                ctx.ob("R-GROWVAL", key, False, f.loc(t["span"]), "push without a value")
                continue
            want = "Index" if e["comp"] == "heap" else "Position"
            aty = t["args"][1].get("place", {}).get("ty") or t["args"][1].get("ty") or ""
            if not aty.endswith(want):
                ctx.ob("R-GROWVAL", key, False, f.loc(t["span"]), "pushes a %s, the table holds %s" % (aty, want))
                continue
            r = trace_quantity(view, f, t["args"][1])
            if r[0] == "read":
                ok, why = check_read(r[1], r[2], e["bb"])
            elif r[0] == "counter":
                l = r[1]
                ok, why = True, ""
                inits = []
                for d in f.defs[l]:
                    rv = d[3]["rv"]
                    x = view.vp.rvalue(f, rv)
                    x = x[1] if x[0] == "field" and x[1][0] == "binop" else x
                    if x[0] == "binop" and x[1].startswith("Add") and const_int(strip(x[3])) == 1 and rv["k"] in ("use", "binop"):
                        # _l = move (_tmp.0) where _tmp = AddWithOverflow(copy _l, 1): the increment
                        continue
                    inits.append(d)
                if l not in counter_locals(view, f):
                    ok, why = False, "the counter `%s` is not what `size` is finally set to: its increments are not paired with the pushes" % (f.locals[l]["name"] or "_%d" % l)
                elif len(inits) != 1:
                    ok, why = False, "the counter `%s` has %d initialisers / non-unit steps" % (f.locals[l]["name"] or "_%d" % l, len(inits))
                else:
                    d0 = inits[0]
                    r0 = trace_quantity(view, f, d0[3]["rv"]["op"]) if d0[3]["rv"]["k"] == "use" else ("unknown", d0[3]["rv"]["k"])
                    if r0[0] == "read" and r0[2] is None:
                        r0 = ("read", r0[1], d0[1])
                    if r0[0] == "const" and r0[1] == 0:
                        # the store being filled must have been created empty in this function
                        root = e.get("root")
                        fresh = False
                        rt = strip(root) if root else None
                        if rt is not None:
                            for x in walk(rt):
                                nm = x[1].split("::")[-1] if x[0] == "call" else ""
                                if x[0] == "call" and (nm in FRESH_STORE_CTORS or nm.startswith("with_")) and ("Store" in x[1] or nm in ("default",)):
                                    fresh = True
                        ok, why = (True, "counter from 0 on a store created empty in this function") if fresh else \
                                  (False, "counter starts at 0 but the store (%s) is not created empty here" % term_str(root)[:60])
                    elif r0[0] == "read":
                        ok, why = check_read(r0[1], r0[2], e["bb"])
                        if ok:
                            why = "counter initialised from " + why
                    else:
                        ok, why = False, "counter initialised from %s" % (r0[1],)
            elif r[0] == "const":
                ok, why = False, "pushes the constant %s" % r[1]
            else:
                ok, why = False, "pushed number is not a length read or a counter: %s" % (r[1],)
            ctx.ob("R-GROWVAL", key, ok, f.loc(t["span"]), why)
    if not only:
        ctx.floor("R-GROWVAL", n, 12)
    return n


# ------------------------------------------------------------------------------------------
# R-STORELIT: a Store literal is empty, or a field-wise copy / move of ONE other Store
# ------------------------------------------------------------------------------------------
EMPTY_VEC = ("new", "with_capacity", "default")
EMPTY_MAP = ("new", "with_hasher", "with_capacity_and_hasher", "with_capacity", "default")


def storelit_scan(view, f):
    """-> list of (bb, span, ok, why) for every `Store { map, heap, qp, size }` aggregate built in body f.
    The automaton (R-GROW) follows the four components of a Store that exists; a Store ASSEMBLED from separately computed
    parts has no history it could follow, so the literal itself must be of a shape that is consistent by construction."""
    vp = view.vp
    out = []
    for bi, b in enumerate(f.blocks):
        if b["cleanup"] or bi not in f.cfg.reach:
            continue
        for s in b["stmts"]:
            rv = s.get("rv") if s["k"] == "assign" else None
            if not rv or rv["k"] != "aggregate" or rv.get("agg") != "adt" or rv.get("path") != STORE:
                continue
            names = [fd["name"] for fd in view.prog.adts[STORE]["variants"][0]["fields"]]
            ops = {n: strip(vp.operand(f, o)) for n, o in zip(names, rv["ops"])}
            if set(ops) != {"map", "heap", "qp", "size"}:
                out.append((bi, s["span"], False, "unexpected fields %s" % sorted(ops)))
                continue

            def ctor(t, allowed):
                t = strip(t)
                return t[0] == "call" and t[1].split("::")[-1] in allowed and not any(
                    x[0] == "call" and x[1].split("::")[-1] in ("collect", "from_iter", "extend", "clone") for a in t[2] for x in walk(a))
            # (a) the empty store
            if const_int(ops["size"]) == 0 and ctor(ops["heap"], EMPTY_VEC) and ctor(ops["qp"], EMPTY_VEC) and ctor(ops["map"], EMPTY_MAP):
                out.append((bi, s["span"], True, "the empty store"))
                continue
            # (b)/(c) field-wise clone / move of one source store
            srcs = set()
            okf = True
            for n in names:
                t = ops[n]
                if t[0] == "call" and t[1].split("::")[-1] in ("clone", "take", "replace") and t[2]:
                    t = strip(t[2][0])
                    while t[0] in ("ref", "deref"):
                        t = strip(t[1])
                while t[0] in ("ref", "deref"):
                    t = strip(t[1])
                c = component(t)
                if c and c[0] == n:
                    srcs.add(term_str(c[1]))
                elif t[0] == "field" and t[2] == n:
                    srcs.add(term_str(strip(t[1])))
                else:
                    okf = False
            if okf and len(srcs) == 1:
                out.append((bi, s["span"], True, "field-wise copy / move of the store %s" % sorted(srcs)[0][:40]))
                continue
            out.append((bi, s["span"], False,
                        "a Store assembled from separately computed parts (map = %s, heap = %s, qp = %s, size = %s): nothing ties the "
                        "tables and the counter to the map's entries" % tuple(term_str(ops[n])[:50] for n in ("map", "heap", "qp", "size"))))
    return out


def r_storelit(ctx, view, only=None):
    prog = view.prog
    ctx.cur = view
    n = 0
    for f in sorted(prog.fns.values(), key=lambda x: x.key):
        if not f.blocks or (only and not only(f)):
            continue
        im = f.j.get("impl_auto_derived") or f.j.get("auto_derived")
        for bi, span, ok, why in storelit_scan(view, f):
            n += 1
            ctx.ob("R-STORELIT", "%s:store-literal" % short(f.key), ok, f.loc(span), why)
    ctx.floor("R-STORELIT", n, 1)
