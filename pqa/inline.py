"""MIR-level inlining of NEW private helper functions (DESIGN 8.7).

The rules are written against the functions of the reviewed tree (rules/known_functions.json).  A refactoring that
moves part of such a function into a fresh private helper leaves the behaviour alone but splits the code the rules
look at.  Rather than teach every rule about helpers, the fact base is normalised before any rule runs: each direct
call to a function that

  * is not in the reviewed inventory (it is new),
  * is not exported, not a closure, defines no closure, is not recursive,
  * is called with the identity instantiation of its generic parameters,

is replaced by a copy of the callee's MIR body (locals, blocks and promoted constants renumbered; arguments bound by
assignments; `return` becomes an assignment to the call's destination and a jump to the call's successor).  A helper
all of whose uses were direct calls disappears from the program; one that is also used as a function value stays, and
is then analysed on its own as well.

This is sound for every rule: the inlined body is exactly the code that runs at that call site, so nothing a rule
could object to is hidden - the helper's code is now judged in the context of each caller instead of in isolation.
"""
import copy
import re

KNOWN_LOCAL_TRAITS = set()   # traits declared by the reviewed crate itself: none
_PROM = re.compile(r"::promoted\[(\d+)\]")
MAX_BLOCKS = 400


def _callee_key(t):
    f = t.get("func")
    if not f:
        return None
    res = f.get("resolved")
    if res and res.get("local"):
        return res["key"]
    if f.get("local") and not f.get("trait"):
        return f["key"]
    return None


def _trait_call_self(t, callee, new_traits):
    """for a call of a method of a NEW crate-local trait: the concrete Self type when the remaining generic arguments are the
    caller's parameters (None = not such a call / not an identity instantiation).  -> (self type dict, is_provided)"""
    f = t["func"]
    if f.get("trait") not in new_traits:
        return None
    g = f.get("gargs") or []
    if not g or any(a.get("k") not in ("param", "closure") for a in g[1:]):
        return None
    st = f.get("self_ty") or g[0]
    if callee.get("impl_trait") in new_traits:
        isf = callee.get("impl_self") or {}
        # `impl<I, P, H> T<I, P, H> for Q<I, P, H>` called on Q<I, P, H>: same parameters under the same names
        nolt = lambda x: re.sub(r"'[A-Za-z_][A-Za-z0-9_]*,?\s*", "", x or "").replace("<>", "")   # lifetimes are erased in MIR
        return (st, False) if nolt(isf.get("s")) == nolt(st.get("s")) else None
    if callee.get("parent") in new_traits:
        return (st, True)
    return None


def _subst_self(x, selfty):
    """replace the type parameter `Self` below x by the concrete type (dicts and their printed forms)"""
    if isinstance(x, dict):
        if x.get("k") == "param" and x.get("name") == "Self":
            x.clear()
            x.update(copy.deepcopy(selfty))
            return
        for k, v in list(x.items()):
            if isinstance(v, str):
                if k in ("s", "ty") and "Self" in v:
                    x[k] = re.sub(r"(?<![A-Za-z0-9_])Self(?![A-Za-z0-9_])", selfty["s"], v)
            else:
                _subst_self(v, selfty)
    elif isinstance(x, list):
        for v in x:
            _subst_self(v, selfty)


def _reresolve(body, j, new_traits):
    """calls of new-trait methods whose Self type became concrete by substitution are bound to the impl's method (or stay
    with the provided one)"""
    for b in body["blocks"]:
        t = b["term"]
        if t["k"] != "call" or not t.get("func"):
            continue
        f = t["func"]
        if f.get("trait") not in new_traits:
            continue
        st = f.get("self_ty") or {}
        if st.get("k") != "adt":
            continue
        key = None
        for im in j["impls"]:
            if im.get("trait") == f["trait"] and (im.get("self") or {}).get("path") == st.get("path"):
                for it in im.get("items", []):
                    if it.get("name") == f.get("name"):
                        key = it["key"]
        f["resolved"] = {"key": key or f["key"], "krate": f.get("krate"), "local": True, "kind": "Item",
                         "is_default_method": key is None, "reresolved": True}


def _identity_inst(t, callee, new_traits=()):
    """the call instantiates the callee's generic parameters by the caller's parameters of the same name"""
    if callee.get("impl_trait") in new_traits or (callee.get("parent") in new_traits and not callee.get("impl_self")):
        return _trait_call_self(t, callee, new_traits) is not None
    g = t["func"].get("gargs") or []
    own = [n for n in (callee.get("generics") or []) if not n.startswith("'")]
    names = []
    isf = callee.get("impl_self")
    if isf:
        def params(ty, out):
            if ty.get("k") == "param":
                if ty["name"] not in out:
                    out.append(ty["name"])
            for a in ty.get("args") or []:
                params(a, out)
            for a in ty.get("elems") or []:
                params(a, out)
            if ty.get("inner"):
                params(ty["inner"], out)
        params(isf, names)
    want = names + [n for n in own if n not in names]
    if not want:
        # a callee without any type parameter (`impl From<usize> for Position`): the generic arguments of the trait-level call
        # (`<Position as From<usize>>::from`) only name the impl that was selected
        return True
    got = []
    ncl = 0
    nfree = 0
    for a in g:
        if a.get("k") in ("closure", "fndef"):
            ncl += 1      # a closure / function item handed to a `F: Fn..` parameter of the helper: its calls are resolved after inlining
            continue
        if a.get("k") != "param":
            # a concrete type for a parameter the helper is PARAMETRIC in (no trait bound of its own on it, e.g. the result
            # type `Q` of `fn build<Q, F: FnOnce(Self) -> Q>`): the body cannot do anything type-specific with it
            idx = len(got) + ncl + nfree
            free = [n for n in want if n in own and not _bounded(callee, n)]
            if idx < len(want) and want[idx] in free:
                nfree += 1
                continue
            return False
        got.append(a["name"])
    # lifetimes are erased; an impl may declare parameters in another order than its self type mentions them
    if ncl or nfree:
        return len(got) + ncl + nfree == len(want) and all(x in want for x in got) and ncl + nfree <= len(own)
    return sorted(got) == sorted(want)


def _bounded(callee, name):
    """does the helper put a trait bound (other than markers) on its own generic parameter `name`?"""
    for p in callee.get("preds") or []:
        if p.get("kind") != "trait":
            continue
        tr = p.get("trait", "")
        if tr.split("::")[-1] in ("Sized", "Send", "Sync", "Unpin", "Copy", "MetaSized", "PointeeSized"):
            continue
        if name in (p.get("self_params") or []):
            return True
    return False


def _walk_places(x, fn):
    """apply fn to every place / operand dict below x (in place)"""
    if isinstance(x, dict):
        if "local" in x and "proj" in x:
            fn(x)
        for v in x.values():
            _walk_places(v, fn)
    elif isinstance(x, list):
        for v in x:
            _walk_places(v, fn)


def _walk_consts(x, fn):
    if isinstance(x, dict):
        if x.get("k") == "const" and "s" in x:
            fn(x)
        for v in x.values():
            _walk_consts(v, fn)
    elif isinstance(x, list):
        for v in x:
            _walk_consts(v, fn)


def _retarget(t, off):
    k = t["k"]
    if k == "goto":
        t["target"] += off
    elif k == "switch":
        t["targets"] = [[v, b + off] for v, b in t["targets"]]
        t["otherwise"] += off
    elif k in ("call", "assert", "drop"):
        if t.get("target") is not None:
            t["target"] += off
        u = t.get("unwind")
        if isinstance(u, int):
            t["unwind"] = u + off
        elif isinstance(u, dict) and isinstance(u.get("bb"), int):
            u["bb"] += off
    for fld in ("cleanup", "real_target", "imaginary_target"):
        if isinstance(t.get(fld), int):
            t[fld] += off


def _rename_keys(x, ren):
    """replace closure keys (aggregate `def`, callee `key`s) below x according to ren"""
    if isinstance(x, dict):
        for k, v in x.items():
            if isinstance(v, str):
                if k in ("def", "key", "parent_fn") and v in ren:
                    x[k] = ren[v]
            else:
                _rename_keys(v, ren)
    elif isinstance(x, list):
        for v in x:
            _rename_keys(v, ren)


def _clone_closures(j, caller, callee, counter):
    """the closures defined in callee get a copy owned by caller; -> renaming old key -> new key"""
    ren = {}
    todo = [callee["key"]]
    order = []
    while todo:
        k = todo.pop()
        for f in j["fns"]:
            if f.get("kind") == "Closure" and f.get("parent_fn") == k and f["key"] not in ren:
                counter[0] += 1
                ren[f["key"]] = "%s::{closure#inl%d}" % (caller["key"], counter[0])
                order.append(f)
                todo.append(f["key"])
    new = []
    for f in order:
        g = copy.deepcopy(f)
        g["key"] = ren[f["key"]]
        g["parent_fn"] = caller["key"] if f["parent_fn"] == callee["key"] else ren[f["parent_fn"]]
        g["inlined_from"] = f["key"]
        if g.get("body"):
            _rename_keys(g["body"], ren)
        _rename_keys(g.get("promoted") or [], ren)
        new.append(g)
    j["fns"].extend(new)
    return ren


def _splice(caller, bb, callee, j=None, counter=None, selfty=None, new_traits=()):
    """replace the call terminating caller block bb by the body of callee"""
    cb = caller["body"]
    t = cb["blocks"][bb]["term"]
    body = copy.deepcopy(callee["body"])
    if j is not None:
        ren = _clone_closures(j, caller, callee, counter)
        if ren:
            _rename_keys(body, ren)
            if selfty is not None:
                for g in j["fns"]:
                    if g["key"] in ren.values() and g.get("body"):
                        _subst_self(g["body"], selfty)
                        _reresolve(g["body"], j, new_traits)
    if selfty is not None:
        _subst_self(body, selfty)
        _reresolve(body, j, new_traits)
    loff = len(cb["locals"])
    boff = len(cb["blocks"])
    poff = len(caller.get("promoted") or [])
    nargs = body["arg_count"]

    rvo = (not t["dest"]["proj"]) and t.get("target") is not None   # the callee writes its result straight into the destination

    def reloc(pl):
        if rvo and pl["local"] == 0:
            pl["local"] = t["dest"]["local"]
        else:
            pl["local"] += loff
        for e in pl["proj"]:
            if e.get("k") == "index" and isinstance(e.get("local"), int):
                e["local"] += loff

    def reprom(c):
        c["s"] = _PROM.sub(lambda m: "::promoted[%d]" % (int(m.group(1)) + poff), c["s"])

    for l in body["locals"]:
        l["arg"] = False
    cb["locals"].extend(body["locals"])
    if callee.get("promoted"):
        caller.setdefault("promoted", [])
        caller["promoted"] = list(caller["promoted"]) + copy.deepcopy(callee["promoted"])
    dest, target, span = t["dest"], t.get("target"), t["span"]
    for b in body["blocks"]:
        b.setdefault("from_fn", callee["key"])   # innermost origin of a spliced block (R-WRITERS: a new Store helper's writes are the Store's)
        _walk_places(b, reloc)
        _walk_consts(b, reprom)
        _retarget(b["term"], boff)
        if b["term"]["k"] == "return" and not b["cleanup"]:
            if target is None:
                b["term"] = {"k": "unreachable", "span": b["term"]["span"]}
            elif rvo:
                b["term"] = {"k": "goto", "target": target, "span": b["term"]["span"], "inlined_return": callee["key"]}
            else:
                rty = body["locals"][0]["ty"]
                b["stmts"].append({"k": "assign", "place": copy.deepcopy(dest),
                                   "rv": {"k": "use", "op": {"k": "move", "place": {"local": loff, "proj": [], "ty": rty["s"]}}},
                                   "span": span, "inlined_return": callee["key"]})
                b["term"] = {"k": "goto", "target": target, "span": b["term"]["span"]}
    # bind the arguments
    blk = cb["blocks"][bb]
    for i, a in enumerate(t["args"][:nargs]):
        ty = body["locals"][1 + i]["ty"]
        blk["stmts"].append({"k": "assign", "place": {"local": loff + 1 + i, "proj": [], "ty": ty["s"]},
                             "rv": {"k": "use", "op": copy.deepcopy(a)}, "span": span, "inlined_arg": callee["key"]})
    blk["term"] = {"k": "goto", "target": boff, "span": span, "inlined_call": callee["key"]}
    cb["blocks"].extend(body["blocks"])


def inline_new_helpers(j, known):
    """j: facts dict (mutated).  Returns a report dict."""
    fns = {f["key"]: f for f in j["fns"]}
    has_closure = {f.get("parent_fn") for f in j["fns"] if f.get("kind") == "Closure"}
    # the reviewed crate declares no trait of its own: every crate-local trait is new (a private helper trait), and its
    # methods - provided ones and the impls' - are helpers like any other new private function
    new_traits = set()
    for im in j["impls"]:
        tr = im.get("trait")
        if tr and any((g.get("parent") == tr and not g.get("impl_self")) or False for g in j["fns"]):
            new_traits.add(tr)
    for g in j["fns"]:
        for b in (g.get("body") or {}).get("blocks", []):
            fu = b["term"].get("func") if b["term"]["k"] == "call" else None
            if fu and fu.get("trait") and fu.get("local") and fu.get("krate") == j.get("crate"):
                new_traits.add(fu["trait"])
    new_traits -= KNOWN_LOCAL_TRAITS
    cand = {}
    for k, f in fns.items():
        if k in known or f.get("kind") not in ("Fn", "AssocFn") or f.get("exported") or not f.get("body"):
            continue
        if f.get("auto_derived") or (f.get("impl_trait") and f.get("impl_trait") not in new_traits):
            continue
        cand[k] = f
    report = {"candidates": sorted(cand), "inlined": [], "kept": [], "skipped": []}
    if not cand:
        return report
    # call graph among candidates -> drop the recursive ones
    def family(k):
        out = [fns[k]]
        todo = [k]
        while todo:
            x = todo.pop()
            for g in j["fns"]:
                if g.get("kind") == "Closure" and g.get("parent_fn") == x and g.get("body"):
                    out.append(g)
                    todo.append(g["key"])
        return out
    def callees(f):
        out = set()
        for g in family(f["key"]):
            for b in g["body"]["blocks"]:
                if b["term"]["k"] == "call":
                    ck = _callee_key(b["term"])
                    if ck in cand:
                        out.add(ck)
        return out
    cg = {k: callees(f) for k, f in cand.items()}
    def reaches_self(k):
        seen, todo = set(), list(cg[k])
        while todo:
            x = todo.pop()
            if x == k:
                return True
            if x in seen:
                continue
            seen.add(x)
            todo.extend(cg.get(x, ()))
        return False
    for k in list(cand):
        if reaches_self(k):
            report["skipped"].append((k, "recursive"))
            del cand[k]
    # bottom-up: a helper is spliced only once its own body is free of helper calls
    done = set()
    order = []
    while len(done) < len(cand):
        progressed = False
        for k in sorted(cand):
            if k not in done and all(c in done or c not in cand for c in cg[k]):
                order.append(k)
                done.add(k)
                progressed = True
        if not progressed:
            break
    not_inlined_site = set()
    counter = [0]
    def do_calls(f):
        body = f.get("body")
        if not body:
            return
        i = 0
        while i < len(body["blocks"]):
            b = body["blocks"][i]
            t = b["term"]
            if t["k"] == "call":
                ck = _callee_key(t)
                if ck in cand and ck != f["key"]:
                    cal = cand[ck]
                    if b["cleanup"] or not _identity_inst(t, cal, new_traits) or len(body["blocks"]) + len(cal["body"]["blocks"]) > MAX_BLOCKS \
                            or len(t["args"]) != cal["body"]["arg_count"]:
                        not_inlined_site.add(ck)
                    else:
                        ts = _trait_call_self(t, cal, new_traits)
                        _splice(f, i, cal, j, counter, selfty=ts[0] if ts and ts[1] else None, new_traits=new_traits)
                        report["inlined"].append((ck, f["key"]))
            i += 1
    handled = set()
    for k in order:
        for g in family(k):
            do_calls(g)
            handled.add(g["key"])
    for k, f in list(fns.items()):
        if k not in handled:
            do_calls(f)
    # a helper every use of which was a spliced direct call is gone from the program
    used_as_value = set()
    def scan_fnconst(x):
        if isinstance(x, dict):
            if x.get("k") == "const" and "fn" in x and isinstance(x["fn"], dict):
                used_as_value.add(x["fn"].get("key"))
                r = x["fn"].get("resolved")
                if r:
                    used_as_value.add(r.get("key"))
            for v in x.values():
                scan_fnconst(v)
        elif isinstance(x, list):
            for v in x:
                scan_fnconst(v)
    for f in j["fns"]:
        if f.get("body"):
            scan_fnconst(f["body"])
    spliced = {c for c, _ in report["inlined"]}
    drop = set()
    for k in cand:
        if k in spliced and k not in not_inlined_site and k not in used_as_value:
            drop.add(k)
        else:
            report["kept"].append(k)
    changed = True
    while changed:
        changed = False
        for f in j["fns"]:
            if f.get("kind") == "Closure" and f.get("parent_fn") in drop and f["key"] not in drop:
                drop.add(f["key"])
                changed = True
    j["fns"] = [f for f in j["fns"] if f["key"] not in drop]
    report["dropped"] = sorted(drop)
    return report


# ------------------------------------------------------------------------------------------
# moved / renamed / de-duplicated functions: give them back the name the rules know them by
# ------------------------------------------------------------------------------------------
def _module_of(key):
    """leading module path of a function key (`priority_queue::PriorityQueue::pop` -> `priority_queue`;
    `<double_priority_queue::DoublePriorityQueue as Extend<(..)>>::extend` -> `double_priority_queue`)"""
    m = re.search(r"([a-z_][a-z0-9_]*(?:::[a-z_][a-z0-9_]*)*)::", key.lstrip("<&").replace("mut ", ""))
    return m.group(1) if m else ""


def _sig(f):
    return (f.get("kind"), tuple(t["s"] for t in f.get("inputs", [])), (f.get("output") or {}).get("s"))


def _clone_fn_as(j, f, newkey):
    """copy of function f (with its closures) under the key newkey; -> renaming used"""
    ren = {f["key"]: newkey}
    todo = [f["key"]]
    fam = []
    while todo:
        k = todo.pop()
        for g in j["fns"]:
            if g.get("kind") == "Closure" and g.get("parent_fn") == k and g["key"] not in ren:
                ren[g["key"]] = newkey + g["key"][len(f["key"]):] if g["key"].startswith(f["key"]) else g["key"] + "@" + newkey
                fam.append(g)
                todo.append(g["key"])
    out = []
    for g in [f] + fam:
        h = copy.deepcopy(g)
        h["key"] = ren[g["key"]]
        if h.get("parent_fn") in ren:
            h["parent_fn"] = ren[h["parent_fn"]]
        if h.get("body"):
            _rename_keys(h["body"], ren)
        _rename_keys(h.get("promoted") or [], ren)
        h["alias_of"] = g["key"]
        out.append(h)
    j["fns"].extend(out)
    return ren


def alias_moved(j, known, sigs):
    """A function of the reviewed inventory that is gone while a function with the same signature appeared (same name in
    another module = moved; another name under the same parent = renamed) or an identical sibling survived elsewhere
    (de-duplicated) is analysed under its reviewed name.  Names carry no meaning for the rules beyond identifying the
    role: the body that now plays the role is still checked in full."""
    present = {f["key"]: f for f in j["fns"] if f.get("kind") != "Closure"}
    missing = [k for k in sorted(known) if k not in present and k in sigs and sigs[k].get("kind") in ("Fn", "AssocFn") and not k.startswith("<")]
    new = {k: f for k, f in present.items() if k not in known and f.get("kind") in ("Fn", "AssocFn") and not k.startswith("<")}
    report = []
    if not missing:
        return report
    targets = {}   # missing old key -> present key that plays its role

    def sig2(x):
        return (tuple(x[1]), x[2])   # a free function may have become a method of its argument's type: the kind is not compared

    def callers_now(n):
        out = set()
        for g in j["fns"]:
            for b in (g.get("body") or {}).get("blocks", []):
                if b["term"]["k"] == "call" and _callee_key(b["term"]) == n:
                    k = g["key"]
                    while k not in present and "::{closure" in k:
                        k = k.rsplit("::{closure", 1)[0]
                    out.add(k)
        return out

    def callers_reviewed(o):
        return {k for k, e in sigs.items() if o in (e.get("callees") or [])}

    for o in missing:
        so = sig2((sigs[o]["kind"], tuple(sigs[o]["inputs"]), sigs[o]["output"]))
        leaf = o.rsplit("::", 1)[-1]
        parent = o.rsplit("::", 1)[0] if "::" in o else ""
        moved = [k for k, f in new.items() if k.rsplit("::", 1)[-1] == leaf and sig2(_sig(f)) == so]
        renamed = [k for k, f in new.items() if (k.rsplit("::", 1)[0] if "::" in k else "") == parent and sig2(_sig(f)) == so]
        dedup = [k for k, f in present.items() if k in known and k != o and k.rsplit("::", 1)[-1] == leaf and sig2(_sig(f)) == so]
        if len(renamed) > 1 and not moved:
            # several renamed siblings with one signature (find_min / find_max): the one the reviewed callers now call
            was = callers_reviewed(o)
            score = {k: len(was & callers_now(k)) for k in renamed}
            best = max(score.values()) if score else 0
            top = [k for k, v in score.items() if v == best and best > 0]
            renamed = top if len(top) == 1 else renamed
        if len(moved) == 1:
            targets[o] = (moved[0], "moved")
        elif not moved and len(renamed) == 1:
            targets[o] = (renamed[0], "renamed")
        elif not moved and not renamed and len(dedup) == 1:
            targets[o] = (dedup[0], "de-duplicated")
    # two reviewed functions must not claim the same renamed function
    claimed = {}
    for o, (n, how) in list(targets.items()):
        if how == "renamed":
            claimed.setdefault(n, []).append(o)
    for n, olds in claimed.items():
        if len(olds) > 1:
            for o in olds:
                del targets[o]
    if not targets:
        return report
    by_target = {}
    for o, (n, how) in targets.items():
        by_target.setdefault(n, []).append((o, how))
    callee_map = {}   # present key -> list of (old key) it stands for
    for n, olds in by_target.items():
        f = present[n]
        keep_n = n in known
        if len(olds) == 1 and not keep_n:
            o, how = olds[0]
            ren = {n: o}
            for g in j["fns"]:
                if g.get("kind") == "Closure" and g["key"].startswith(n + "::"):
                    ren[g["key"]] = o + g["key"][len(n):]
            for g in j["fns"]:
                if g["key"] in ren:
                    g["key"] = ren[g["key"]]
                if g.get("parent_fn") in ren:
                    g["parent_fn"] = ren[g["parent_fn"]]
                if g.get("body"):
                    _rename_keys(g["body"], ren)
                _rename_keys(g.get("promoted") or [], ren)
            f["alias_of"] = n
            report.append("%s: %s is analysed as %s" % (how, n, o))
        else:
            for o, how in olds:
                _clone_fn_as(j, f, o)
                report.append("%s: %s also stands for %s" % (how, n, o))
            callee_map[n] = [o for o, _ in olds] + ([n] if keep_n else [])
    if callee_map:
        # calls to a shared function are attributed to the reviewed name that belongs to the caller's module
        def fix(x, caller_mod):
            if isinstance(x, dict):
                k = x.get("key")
                if isinstance(k, str) and k in callee_map and ("name" in x or "krate" in x):
                    cands = callee_map[k]
                    best = [c for c in cands if _module_of(c) == caller_mod] or [c for c in cands if caller_mod.startswith(_module_of(c)) and _module_of(c)]
                    if best and best[0] != k:
                        x["key"] = best[0]
                for v in x.values():
                    fix(v, caller_mod)
            elif isinstance(x, list):
                for v in x:
                    fix(v, caller_mod)
        for g in j["fns"]:
            if g.get("body"):
                fix(g["body"], _module_of(g["key"] if g.get("kind") != "Closure" else g["key"]))
        # the shared function itself disappears when it is not a reviewed name
        drop = {n for n in callee_map if n not in known}
        if drop:
            j["fns"] = [g for g in j["fns"] if not (g["key"] in drop or any(g["key"].startswith(d + "::{") for d in drop))]
    return report


# ------------------------------------------------------------------------------------------
# module layout: a reviewed type that now lives in another module (file split, module renamed)
# ------------------------------------------------------------------------------------------
def _strip_mods(s):
    import re
    return re.sub(r'(?:[A-Za-z_][A-Za-z0-9_]*::)+', '', s or '')


def adt_shape(a):
    """what identifies a type apart from where it lives: kind, generics, variant and field names, field types by leaf name"""
    return [a.get("kind"), list(a.get("generics") or []),
            [[v.get("name"), [[f.get("name"), _strip_mods((f.get("ty") or {}).get("s"))] for f in v.get("fields", [])]]
             for v in a.get("variants", [])]]


def relocate_adts(text, j, shapes):
    """A reviewed type whose path is gone while exactly one new type of the same name and shape exists elsewhere in the
    crate has moved (its file was split off, its module renamed).  Every rule names types by their reviewed path, so the
    whole fact base is rewritten to that path; the functions, impls and closures defined on the type follow with it.
    Returns (text, report)."""
    import re
    present = {a["path"]: a for a in j["adts"]}
    missing = [p for p in sorted(shapes) if p not in present]
    new = {p: a for p, a in present.items() if p not in shapes}
    ren = {}
    for o in missing:
        leaf = o.rsplit("::", 1)[-1]
        cands = [p for p, a in new.items() if p.rsplit("::", 1)[-1] == leaf and adt_shape(a) == shapes[o]]
        if len(cands) == 1:
            ren[cands[0]] = o
    # one new path may stand for only one reviewed type
    if len(set(ren.values())) != len(ren):
        return text, []
    report = []
    # longest first so that a path that is a suffix of another one is not rewritten inside it
    for n in sorted(ren, key=len, reverse=True):
        o = ren[n]
        text = re.sub(r'(?<![A-Za-z0-9_:])' + re.escape(n) + r'(?![A-Za-z0-9_])', o, text)
        report.append((o, n))
    return text, report
