"""Iterator rules: R-ESI (exact-size / wiring / fusedness) and R-CURSOR (raw-pointer lifetime
extension discipline of the IterMut types)."""
from .core import walk, strip, term_str, component, const_int, foreign_expansion

IT = "std::iter::Iterator"
DEI = "std::iter::DoubleEndedIterator"
ESI = "std::iter::ExactSizeIterator"
FUSED = "std::iter::FusedIterator"

FRONT_METHODS = {"next", "nth", "advance_by", "fold", "try_fold", "for_each", "count", "last", "find", "position",
                 "any", "all", "min", "max", "sum", "collect", "partition", "reduce", "size_hint"}
BACK_METHODS = {"next_back", "nth_back", "advance_back_by", "rfold", "try_rfold", "rfind", "rposition"}


def impls_of(prog, trait):
    return [im for im in prog.impls if im.get("trait") == trait]


def impl_for(prog, trait, self_desc):
    for im in prog.impls:
        if im.get("trait") == trait and im["self_desc"] == self_desc:
            return im
    return None


def method(prog, im, name):
    if im is None:
        return None
    for it in im["items"]:
        if it["name"] == name and it["kind"] == "Fn":
            return prog.fn(it["key"])
    return None


def ret_term(view, fn):
    return view.vp.local(fn, 0)


def self_field(t):
    """term `self.<f>` (through refs) -> field name, else None"""
    t = strip(t)
    if t[0] == "field" and strip(t[1])[0] == "param" and strip(t[1])[2] == 1:
        return t[2]
    return None


def delegating_inner(view, fn):
    """if fn's result is `<same trait method>(self.<f>)` return (callee key, field) else None"""
    if fn is None:
        return None
    r = ret_term(view, fn)
    if r[0] == "call" and len(r[2]) >= 1:
        f = self_field(r[2][0])
        if f is not None:
            return (r[1], f, r)
    return None


def r_esi(ctx, view, only_types=None, key_floor=5):
    """every `impl ExactSizeIterator for T` of the crate: size_hint defined and agreeing with len,
    wiring of every overridden iterator method, fusedness."""
    prog = view.prog
    ctx.cur = view
    esis = impls_of(prog, ESI)
    n = 0
    for im in esis:
        T = im["self_desc"]
        if only_types and not only_types(T):
            continue
        it = impl_for(prog, IT, T)
        dei = impl_for(prog, DEI, T)
        loc = "%s:%d" % (im["span"]["file"], im["span"]["line"])
        n += 1
        ctx.anchor("impl Iterator for %s" % T, it is not None)
        # e1: size_hint defined
        sh = method(prog, it, "size_hint")
        ctx.ob("R-ESI", "%s:e1:size_hint-defined" % T, sh is not None, loc,
               "ExactSizeIterator type must override Iterator::size_hint (default is (0, None); std adaptors' len() assert on it)")
        ln = method(prog, im, "len")
        nx = method(prog, it, "next")
        ctx.anchor("%s::next" % T, nx is not None)
        dn = delegating_inner(view, nx)
        # e2: size_hint and len agree
        e2ok = False
        if sh is not None:
            ok, why = esi_agree(view, T, sh, ln, dn)
            e2ok = ok
            ctx.ob("R-ESI", "%s:e2:size_hint-agrees-with-len" % T, ok, sh.loc(), why)
        # e6: both ends see all the remaining state: every field of self that len() counts is read or written by next and by
        # next_back (an element parked in a field one of them ignores is never yielded from that end, or yielded from both)
        if ln is not None:
            lt_ = count_term(view, T, sh, ln, ret_term(view, ln))
            S = {self_field_loose(x) for x in walk(lt_) if isinstance(x, tuple) and x and x[0] == "field"} - {None}
            for m in (nx, method(prog, dei, "next_back") if dei else None):
                if m is None or not S:
                    continue
                seen_f = set()
                for g in prog.family(m.key):
                    # `self`, and the copies / reborrows of it that an inlined helper method received as its own `self`
                    selfs = {1}
                    if not g.is_closure:
                        for L in range(2, len(g.locals)):
                            if g.locals[L]["arg"] or len(g.defs.get(L, [])) != 1:
                                continue
                            try:
                                tL = view.vp.operand(g, {"k": "copy", "place": {"local": L, "proj": [], "ty": g.locals[L]["ty"]["s"]}})
                            except Exception:
                                continue
                            tL = strip(tL)
                            while isinstance(tL, tuple) and tL and tL[0] in ("ref", "deref", "rawref"):
                                tL = strip(tL[1])
                            if isinstance(tL, tuple) and tL and tL[0] == "param" and tL[2] == 1:
                                selfs.add(L)
                    for b in g.blocks:
                        if b["cleanup"]:
                            continue
                        stack = [b["stmts"], b["term"]]
                        while stack:
                            x = stack.pop()
                            if isinstance(x, dict):
                                if "local" in x and "proj" in x and x["local"] in selfs and not g.is_closure:
                                    for e in x["proj"]:
                                        if e.get("k") == "field" and e.get("name"):
                                            seen_f.add(e["name"])
                                            break
                                stack.extend(x.values())
                            elif isinstance(x, list):
                                stack.extend(x)
                # a method that simply hands `self` to another method of the same iterator sees what that one sees
                for bb, t in m.calls():
                    ci = view.fx.call_info(m, bb)
                    if ci.local_callee and t["args"] and strip(view.vp.operand(m, t["args"][0]))[0] == "param":
                        seen_f |= S
                missing = sorted(S - seen_f)
                ctx.ob("R-ESI", "%s:e6:%s-sees-all-counted-state" % (T, m.name), not missing, m.loc(),
                       "len() counts the fields %s; %s touches %s" % (sorted(S), m.name, sorted(seen_f)) if not missing else
                       "len() counts the field(s) %s that %s never looks at: what is parked there is invisible from this end" % (missing, m.name))
        # e3: wiring of all overridden methods
        if dn is not None and dn[0].endswith("::next"):
            field = dn[1]
            for (tim, names) in ((it, FRONT_METHODS), (dei, BACK_METHODS), (im, {"len", "is_empty"})):
                if tim is None:
                    continue
                for item in tim["items"]:
                    if item["kind"] != "Fn":
                        continue
                    m = prog.fn(item["key"])
                    d = delegating_inner(view, m)
                    good = d is not None and d[1] == field and d[0].split("::")[-1] == item["name"] and single_call(m)
                    if not good and item["name"] in ("size_hint", "len") and e2ok:
                        good = True   # written through the inner exact length instead: e2 has established what it returns
                    ctx.ob("R-ESI", "%s:e3:wiring:%s" % (T, item["name"]), good, m.loc(),
                           "delegating wrapper: `%s` must forward to the same-named method of self.%s (found %s)" % (
                               item["name"], field, term_str(ret_term(view, m))))
        else:
            # self-made iterator: only the core methods may be overridden (anything else is unverifiable here)
            for (tim, allowed) in ((it, {"next", "size_hint"}), (dei, {"next_back"}), (im, {"len"})):
                if tim is None:
                    continue
                for item in tim["items"]:
                    if item["kind"] != "Fn":
                        continue
                    m = prog.fn(item["key"])
                    ctx.ob("R-ESI", "%s:e3:override:%s" % (T, item["name"]), item["name"] in allowed, m.loc(),
                           "self-made iterator overrides provided method `%s`; its agreement with next/len cannot be established" % item["name"])
        # e4: fusedness
        if impl_for(prog, FUSED, T) is not None:
            ok, why = fused_ok(view, T, nx, method(prog, dei, "next_back") if dei else None, dn)
            ctx.ob("R-ESI", "%s:e4:fused" % T, ok, loc, why)
    ctx.floor("R-ESI", n, key_floor)
    # non-ESI iterator types that nevertheless define size_hint: lower bound must be trivially sound
    for im in impls_of(prog, IT):
        T = im["self_desc"]
        if impl_for(prog, ESI, T) is not None or (only_types and not only_types(T)):
            continue
        sh = method(prog, im, "size_hint")
        if sh is None:
            continue
        ok, why = nonexact_hint_ok(view, sh)
        ctx.ob("R-ESI", "%s:e5:size_hint-of-inexact-iterator" % T, ok, sh.loc(), why)


def single_call(fn):
    """the method body consists of exactly one call (pure forwarding)"""
    return sum(1 for _ in fn.calls()) == 1 and not fn.cfg.loops


def _noref(t):
    if not isinstance(t, tuple) or not t:
        return t
    if isinstance(t[0], str) and t[0] in ("ref", "deref", "rawref") and len(t) > 1 and isinstance(t[1], tuple):
        return _noref(t[1])
    if isinstance(t[0], str) and t[0] == "call":
        return ("call", t[1], tuple(_noref(a) for a in t[2]))
    if isinstance(t[0], str) and t[0] == "param" and len(t) >= 3:
        return ("param", None, t[2], None)   # the same parameter of two methods of one impl
    return tuple(_noref(x) if isinstance(x, tuple) else x for x in t)


def count_term(view, T, sh, ln, t, depth=0):
    """normal form of an expression for the number of elements still to come: the iterator's own `len()` and
    `size_hint().0` are unfolded to what they return, `inner.size_hint().0` of a wrapped exact iterator is `inner.len()`"""
    t = strip(t)
    if depth > 4:
        return _noref(unsite(t))
    if is_self_len_call(t, T) and ln is not None:
        return count_term(view, T, sh, ln, ret_term(view, ln), depth + 1)
    if t[0] == "field" and t[2] in (0, "0"):
        b = strip(t[1])
        if b[0] == "call" and b[1].endswith("size_hint") and b[2]:
            a = strip(b[2][0])
            if a[0] == "param" and a[2] == 1 and sh is not None:
                r = strip(ret_term(view, sh))
                if r[0] == "tuple" and len(r[1]) == 2:
                    return count_term(view, T, sh, ln, r[1][0], depth + 1)
                if r[0] == "call" and r[1].endswith("size_hint"):
                    return count_term(view, T, sh, ln, ("field", r, 0, None), depth + 1)
            if self_field(a) is not None:
                return ("call", "len", (_noref(unsite(a)),))
    if t[0] == "call" and t[1].split("::")[-1] == "len" and len(t[2]) == 1 and self_field(strip(t[2][0])) is not None:
        return ("call", "len", (_noref(unsite(strip(t[2][0]))),))
    return _noref(unsite(t))


def esi_agree(view, T, sh, ln, dn):
    r = strip(ret_term(view, sh))
    deleg = dn is not None and dn[0].endswith("::next")
    # (lower, upper) of size_hint in count-term normal form
    if r[0] == "call" and r[1].endswith("size_hint") and r[2] and self_field(strip(r[2][0])) is not None:
        if deleg and self_field(strip(r[2][0])) != dn[1]:
            return False, "size_hint must forward to self.%s.size_hint() (found %s)" % (dn[1], term_str(r))
        lo = hi = ("call", "len", (_noref(unsite(strip(r[2][0]))),))
    elif r[0] == "tuple" and len(r[1]) == 2:
        lo0, hi0 = r[1]
        hi0 = strip(hi0)
        if hi0[0] != "adt" or not hi0[1].endswith("Option") or hi0[2] != "Some" or len(hi0[3]) != 1:
            return False, "upper bound is not Some(_): %s" % term_str(hi0)
        lo = count_term(view, T, sh, ln, lo0)
        hi = count_term(view, T, sh, ln, hi0[3][0])
    else:
        return False, "size_hint result is neither a pair literal nor the inner size_hint: %s" % term_str(r)
    if lo != hi:
        return False, "lower and upper bound differ: %s vs %s" % (term_str(lo), term_str(hi))
    if ln is None:
        # the provided len() calls size_hint(): a size_hint written through self.len() would never terminate
        raw = strip(ret_term(view, sh))
        if any(isinstance(x, tuple) and x and x[0] == "call" and is_self_len_call(x, T) for x in walk(raw)):
            return False, "size_hint() is written through self.len(), but len() is the provided method, which calls size_hint(): neither terminates"
        return True, "size_hint = (n, Some(n)); len() is the provided one, which returns that n"
    lt = count_term(view, T, sh, ln, ret_term(view, ln))
    if deleg:
        want = ("call", "len", (_noref(("field", ("param", None, 1, "self"), dn[1], None)),))
        okf = lt[0] == "call" and lt[1] == "len" and self_field_loose(lt[2][0]) == dn[1] and lo[0] == "call" and lo[1] == "len" and self_field_loose(lo[2][0]) == dn[1]
        if not okf:
            return False, "size_hint / len must both be the exact length of self.%s, the field next() reads (found %s / %s)" % (dn[1], term_str(lo), term_str(lt))
        return True, "size_hint and len are the exact length of the inner field `%s` that next reads" % dn[1]
    if lo == lt:
        return True, "size_hint = (n, Some(n)) with n = len() (%s)" % term_str(lt)[:60]
    return False, "size_hint bound %s is not len() (= %s)" % (term_str(lo), term_str(lt))


def self_field_loose(t):
    t = strip(t)
    if t[0] == "field" and isinstance(t[1], tuple) and strip(t[1])[0] == "param" and strip(t[1])[2] == 1:
        return t[2]
    return None


def is_self_len_call(t, T):
    if t[0] != "call":
        return False
    if not (t[1] == "std::iter::ExactSizeIterator::len" or t[1].endswith("as ExactSizeIterator>::len")):
        return False
    a = strip(t[2][0])
    return a[0] == "param" and a[2] == 1


def unsite(t):
    """drop call-site ids so that two evaluations of the same expression compare equal"""
    if not isinstance(t, tuple):
        return t
    if t and t[0] == "call":
        return ("call", t[1], tuple(unsite(a) for a in t[2]))
    return tuple(unsite(x) for x in t)


def fused_ok(view, T, nx, nb, dn):
    if dn is not None and dn[0].endswith("::next"):
        # fusedness is inherited from the inner iterator: the inner type must be one of indexmap's
        # iterators (all FusedIterator by documented contract; trusted base)
        fty = None
        adt = view.prog.adts.get(T)
        if adt:
            for f in adt["variants"][0]["fields"]:
                if f["name"] == dn[1]:
                    fty = f["ty"]
        ok = bool(fty) and fty.get("k") == "adt" and fty.get("krate") == "indexmap"
        return ok, "inner iterator %s is an indexmap iterator (fused by contract)" % (fty["s"] if fty else "?")
    # self-made: every normal path that returns a constant None must not write iterator state
    bad = []
    for m in (nx, nb):
        if m is None:
            continue
        for path_ok, why in none_paths_pure(view, m):
            if not path_ok:
                bad.append("%s: %s" % (m.key.split("::")[-1], why))
    return (not bad), ("None-returning paths write no iterator state" if not bad else "; ".join(bad))


def none_paths_pure(view, m):
    """for a self-made iterator method: it either forwards to pop*-style queue calls (state change only
    on Some), or its constant-None paths contain no write through self"""
    r = ret_term(view, m)
    alts = r[4] if r[0] == "phi" else (r,)
    out = []
    for a in alts:
        if a[0] == "adt" and a[2] == "None":
            # find the blocks assigning None to _0 and check that no path from entry to them writes self state
            for d in m.defs.get(0, []):
                if d[0] == "stmt" and d[3]["rv"]["k"] == "aggregate" and d[3]["rv"].get("variant") == "None":
                    bb = d[1]
                    if _after_failed_lookup(view, m, bb):
                        # `match map.get_index_mut2(k) { Some(..) => .., None => None }` after the guard: the slot lookup of a
                        # guarded cursor cannot fail (R-CURSOR c2 / R-BOUNDS); this is not the exhausted-iterator path
                        out.append((True, "None arm of the guarded slot lookup"))
                        continue
                    writers = self_writes(view, m)
                    # blocks on some path entry -> bb
                    dirty = [w for w in writers if w in m.cfg.dom[bb] or reaches(m.cfg, w, bb)]
                    out.append((not dirty, "state written before returning None (bb%s)" % dirty if dirty else "ok"))
        elif a[0] == "call":
            # forwarding to a queue pop: None only on the empty queue, which stays empty
            # a computed Option: for queue-backed iterators it forwards to pop*, for cursor iterators it is
            # the guarded slot lookup (the guard is R-CURSOR c2's obligation); only constant-None paths
            # are required to be state-free here
            out.append((True, "computed by %s" % a[1]))
        else:
            out.append((True, "non-None alternative"))
    return out


def _after_failed_lookup(view, m, bb):
    """bb is dominated by the absent edge of a switch on the Option result of a map slot lookup"""
    from .core import edge_presence
    cfg = m.cfg
    for sb in sorted(cfg.reach):
        t = m.term(sb)
        if t["k"] != "switch" or not cfg.dominates(sb, bb) or sb == bb:
            continue
        d = strip(view.vp.operand(m, t["discr"]))
        if d[0] != "discr":
            continue
        if not any(x[0] == "call" and x[1].split("::")[-1] in ("get_index_mut2", "get_index_mut", "get_index", "map") for x in walk(d)):
            continue
        for nb in cfg.succ[sb]:
            if edge_presence(d, t, nb) == "absent" and (nb == bb or cfg.dominates(nb, bb)):
                return True
    return False


def reaches(cfg, a, b):
    return b in cfg.reachable_from(a)


def self_writes(view, m):
    """blocks of m that assign through `self` (any projection of param 1) or call a &mut self method"""
    out = set()
    for bi, b in enumerate(m.blocks):
        if b["cleanup"]:
            continue
        for s in b["stmts"]:
            if s["k"] == "assign" and s["place"]["proj"]:
                t = view.vp.place(m, s["place"])
                root = t
                while root[0] in ("field", "deref", "index", "downcast"):
                    root = root[1]
                if strip(root)[0] == "param" and strip(root)[2] == 1:
                    out.add(bi)
    return out


def nonexact_hint_ok(view, sh):
    """a size_hint on an iterator that is not ExactSizeIterator: accept only forwarding to an inner
    iterator field or bounds built without overflow-checked arithmetic on cursors"""
    d = delegating_inner(view, sh)
    if d is not None and d[0].endswith("::size_hint"):
        return True, "forwards to self.%s.size_hint()" % d[1]
    for b in sh.blocks:
        if b["term"]["k"] == "assert" and "Overflow" in b["term"]["msg_s"]:
            return False, "size_hint of an inexact iterator performs overflow-checked arithmetic (%s) that no cursor guard bounds" % b["term"]["msg_s"][:60]
    return True, "no panicking arithmetic"


# ------------------------------------------------------------------------------------------
# R-CURSOR
# ------------------------------------------------------------------------------------------
def raw_extension_sites(view):
    """functions (with their closures) that turn a raw pointer back into a reference: the places
    where the borrow checker was switched off"""
    prog = view.prog
    owners = {}
    for f in prog.fns.values():
        for bb, t in f.calls():
            fk = t["func"]["key"] if "func" in t else ""
            if fk in ("*mut T::as_mut", "*const T::as_ref", "*mut T::as_ref", "*mut T::as_mut_unchecked",
                      "*const T::as_ref_unchecked", "*mut T::as_ref_unchecked", "std::ptr::NonNull::as_mut",
                      "std::ptr::NonNull::as_ref"):
                root = f
                while root.is_closure:
                    root = prog.fn(root.parent_fn)
                owners.setdefault(root.key, []).append((f.key, t["span"]["line"]))
        # `&mut *p` / `&*p` with p a raw pointer
        for b in f.blocks:
            for s in b["stmts"]:
                if s["k"] == "assign" and s["rv"]["k"] == "ref":
                    pl = s["rv"]["place"]
                    if pl["proj"] and pl["proj"][0]["k"] == "deref" and f.local_ty(pl["local"]).get("k") == "ptr":
                        if foreign_expansion(s["span"]):
                            continue
                        root = f
                        while root.is_closure:
                            root = prog.fn(root.parent_fn)
                        owners.setdefault(root.key, []).append((f.key, s["span"]["line"]))
    return owners


def r_cursor(ctx, view):
    prog = view.prog
    ctx.cur = view
    sites = raw_extension_sites(view)
    ctx.floor("R-CURSOR:sites", len(sites), 3)
    by_type = {}
    for k in sites:
        f = prog.fn(k)
        st = f.j.get("impl_self", {})
        tname = st.get("path") if st else None
        ok = tname is not None and f.name in ("next", "next_back") and f.j.get("impl_trait") in (IT, DEI)
        ctx.ob("R-CURSOR", "%s:c0:site-is-iterator-step" % k, ok, f.loc(),
               "raw-pointer lifetime extension outside an Iterator::next / DoubleEndedIterator::next_back")
        if ok:
            by_type.setdefault(tname, {})[f.name] = f
    for T, ms in sorted(by_type.items()):
        info = {}
        for name, f in sorted(ms.items()):
            info[name] = cursor_info(view, f)
        fronts = info.get("next")
        backs = info.get("next_back")
        for name, ci in sorted(info.items()):
            f = ms[name]
            key = "%s::%s" % (T, name)
            # c1: yields slot k = one cursor field; that field moves strictly in one direction on every yielding path
            ctx.ob("R-CURSOR", key + ":c1:single-cursor", ci["cursor"] is not None, f.loc(),
                   "slot subscript of get_index_mut2 must be exactly one field of self (found %s)" % term_str(ci["subscript"]))
            if ci["cursor"] is None:
                continue
            want = "+1" if name == "next" else "-1"
            moves = ci["moves"].get(ci["cursor"], [])
            good_dir = bool(moves) and all(m["dir"] == want for m in moves)
            ctx.ob("R-CURSOR", key + ":c1:direction", good_dir, f.loc(),
                   "cursor `%s` must move by %s exactly (moves: %s)" % (ci["cursor"], want, [m["dir"] for m in moves]))
            # order: front = read then advance; back = retreat then read
            ordok = ci["order_ok"]
            ctx.ob("R-CURSOR", key + ":c1:order", ordok, f.loc(),
                   "the slot read must be the cursor's old value (front) / its old value - 1 (back) - whichever of read and move comes first - and the move must be on every yielding path (slot offset found: %s)" % ci.get("slot"))
            # c3: no other cursor-like field is moved
            other = [k2 for k2 in ci["moves"] if k2 != ci["cursor"]]
            ctx.ob("R-CURSOR", key + ":c3:no-foreign-move", not other, f.loc(),
                   "method also moves field(s) %s" % other)
        if fronts and backs and fronts["cursor"] and backs["cursor"]:
            # c2: different cursors and a strict guard front < back dominating each yield
            ctx.ob("R-CURSOR", T + ":c2:distinct-cursors", fronts["cursor"] != backs["cursor"], ms["next"].loc(),
                   "next and next_back share the cursor `%s`" % fronts["cursor"])
            for name, ci in sorted(info.items()):
                g = ci["guard"]
                ok = g is not None and set(g["fields"]) == {fronts["cursor"], backs["cursor"]} and g["strict_front_lt_back"](fronts["cursor"], backs["cursor"])
                ctx.ob("R-CURSOR", "%s::%s:c2:guard-front<back" % (T, name), ok, ms[name].loc(),
                       "the yield must be dominated by the strict guard %s < %s (found %s)" % (
                           fronts["cursor"], backs["cursor"], g["text"] if g else "no guard"))
        elif backs and not fronts:
            ctx.ob("R-CURSOR", T + ":c2:back-without-front", False, ms["next_back"].loc(), "next_back without next")
        # c5: no other method of the iterator touches the cursors: only next / next_back / size_hint / len may be defined
        for tr, allowed in ((IT, {"next", "size_hint"}), (DEI, {"next_back"}), (ESI, {"len"})):
            im = impl_for(prog, tr, T)
            if im is None:
                continue
            for item in im["items"]:
                if item["kind"] != "Fn":
                    continue
                m = prog.fn(item["key"])
                ctx.ob("R-CURSOR", "%s:c5:override:%s" % (T, item["name"]), item["name"] in allowed, m.loc(),
                       "`%s` is overridden on an iterator that manufactures `&mut` from raw pointers; only next/next_back/size_hint/len are covered by the cursor discipline" % item["name"])
        # any write to a cursor field outside the stepping methods and the constructor
        cursors = {c["cursor"] for c in info.values() if c["cursor"]}
        for g in prog.fns.values():
            st = g.j.get("impl_self") or {}
            if st.get("path") != T or g.name in ("next", "next_back", "new"):
                continue
            for b in g.blocks:
                for s2 in b["stmts"]:
                    if s2["k"] == "assign" and s2["place"]["proj"]:
                        fld = self_field(view.vp.place(g, s2["place"]))
                        if fld in cursors:
                            ctx.ob("R-CURSOR", "%s:c3:foreign-cursor-write:%s" % (T, g.name), False, g.loc(s2["span"]),
                                   "method `%s` writes the cursor `%s`" % (g.name, fld))
        # c4: len mentions the cursor(s)
        Tdesc = T
        esi = impl_for(prog, ESI, Tdesc)
        if esi is not None:
            ln = method(prog, esi, "len")
            shm = method(prog, impl_for(prog, IT, T), "size_hint")
            if ln is None:
                # the provided len() returns the lower bound of size_hint() (R-ESI e2 decides whether that terminates)
                r0 = strip(ret_term(view, shm)) if shm is not None else ("none",)
                if r0[0] == "tuple" and len(r0[1]) == 2:
                    lt = count_term(view, T, shm, None, r0[1][0])
                    ln = shm
                else:
                    ctx.ob("R-CURSOR", T + ":c4:len-is-remaining", False, (shm or ms.get("next")).loc(),
                           "neither len() nor a pair-valued size_hint() is defined for an iterator that declares an exact size")
                    continue
            else:
                lt = count_term(view, T, shm, ln, ret_term(view, ln))
            fields = {self_field(x) for x in walk(lt)} - {None}
            need = {c["cursor"] for c in info.values() if c["cursor"]}
            ok, why = len_is_remaining(lt, fronts["cursor"] if fronts else None, backs["cursor"] if backs else None)
            ctx.ob("R-CURSOR", T + ":c4:len-is-remaining", ok, ln.loc(), why + " (len = %s)" % term_str(lt))
            if fronts and not backs:
                # a single front cursor counted against a bound (`len() - pos`): exact, and free of underflow, only if the cursor
                # stops at the bound - it may move only where an element is known to exist (not on the call that answers None)
                sat = any(x[0] == "call" and x[1].endswith("saturating_sub") for x in walk(lt))
                okm, whym = cursor_moves_only_when_yielding(view, ms["next"], fronts["cursor"])
                ctx.ob("R-CURSOR", T + ":c4:cursor-stops-at-the-bound", okm or sat, ms["next"].loc(), whym if not sat else "saturating count")
    return by_type


def cursor_moves_only_when_yielding(view, m, cursor):
    """every write of the cursor field in stepping method m is dominated by an edge on which an element is known to exist:
    the Some edge of (a chain on) the slot lookup, or the true side of `cursor < bound`.  -> (ok, why)"""
    from .core import edge_presence
    vp = view.vp
    f = m
    wblocks = set()
    for bi in sorted(f.cfg.reach):
        for s2 in f.blocks[bi]["stmts"]:
            if s2["k"] == "assign" and s2["place"]["proj"] and self_field(vp.place(f, s2["place"])) == cursor:
                wblocks.add(bi)
    if not wblocks:
        return True, "the cursor is not written"
    roots = set()
    for bi in sorted(f.cfg.reach):
        t = f.term(bi)
        if t["k"] != "switch":
            continue
        d = strip(vp.operand(f, t["discr"]))
        if d[0] == "discr" and any(x[0] == "call" and x[1].split("::")[-1] in ("get_index_mut2", "get_index_mut", "get_index", "get_mut", "get") for x in walk(d)):
            for nb in f.cfg.succ[bi]:
                if edge_presence(d, t, nb) == "present":
                    roots.add((bi, nb))
        if d[0] == "binop" and d[1] in ("Lt", "Gt", "Le", "Ge"):
            a, b = strip(d[2]), strip(d[3])
            op = d[1]
            if op in ("Gt", "Ge"):
                a, b, op = b, a, {"Gt": "Lt", "Ge": "Le"}[op]
            zero = [tb for v, tb in t["targets"] if v == 0]
            if op == "Lt" and self_field_loose(a) == cursor:
                roots.add((bi, t["otherwise"]))          # cursor < bound holds
            if op == "Le" and self_field_loose(b) == cursor and zero:
                roots.add((bi, zero[0]))                 # !(bound <= cursor)
    good = set()
    for (bi, nb) in roots:
        if len(f.cfg.pred[nb]) == 1:
            good.add(nb)
    bad = [w for w in wblocks if not any(g == w or f.cfg.dominates(g, w) for g in good)]
    if bad:
        return False, "the cursor `%s` is also moved on a path on which no element is known to exist (block %s): after the end it runs past the bound" % (cursor, bad[0])
    return True, "the cursor moves only where an element is known to exist"


def len_is_remaining(lt, front, back):
    """len() must be `back - front` (two cursors) for a double-ended self-made iterator"""
    if front and back:
        if lt[0] == "field" and lt[1][0] == "binop" and lt[1][1] in ("SubWithOverflow", "Sub"):
            a, b = lt[1][2], lt[1][3]
            if self_field_loose(a) == back and self_field_loose(b) == front:
                return True, "len = self.%s - self.%s" % (back, front)
        if lt[0] == "binop" and lt[1] in ("Sub", "SubWithOverflow", "SubUnchecked") and self_field_loose(lt[2]) == back and self_field_loose(lt[3]) == front:
            return True, "len = self.%s - self.%s" % (back, front)
        if lt[0] == "call" and lt[1].endswith("saturating_sub") and self_field_loose(lt[2][0]) == back and self_field_loose(lt[2][1]) == front:
            return True, "len = self.%s.saturating_sub(self.%s)" % (back, front)
        return False, "len() must be the distance between the two cursors"
    return True, "single cursor"


def cursor_read(f, o, bb):
    """the subscript operand `o` of the lookup in block bb, followed back through single-assignment temporaries:
    -> (cursor field, offset d in {0,-1,+1}, (block, position) of the read of the field) or None.
    `self.c`, `let k = self.c`, `let k = self.c - 1` (through the checked-arithmetic pair) are recognised."""
    pos = 10 ** 6
    d = 0
    for _ in range(10):
        if o["k"] not in ("copy", "move"):
            return None
        pl = o["place"]
        pr = pl["proj"]
        if pl["local"] == 1 and len(pr) == 2 and pr[0]["k"] == "deref" and pr[1]["k"] == "field":
            return pr[1].get("name"), d, (bb, pos)
        if pr and not (len(pr) == 1 and pr[0]["k"] == "field" and pr[0].get("i") == 0) and not (
                len(pr) == 2 and pr[0]["k"] == "downcast" and pr[0].get("name") in ("Some", "Continue") and pr[1]["k"] == "field" and pr[1].get("i") == 0):
            return None
        ds = f.defs.get(pl["local"], [])
        if len(ds) != 1 or f.locals[pl["local"]]["arg"]:
            return None
        if ds[0][0] == "call":
            # `k.checked_sub(1)?` / `match k.checked_sub(1) { Some(v) => .. }`: the success payload is k - 1
            ct = ds[0][2]
            fu = ct.get("func") or {}
            bb, pos = ds[0][1], 10 ** 6
            if fu.get("key") == "std::ops::Try::branch" and len(ct["args"]) == 1:
                o = ct["args"][0]
                continue
            if fu.get("key") in ("usize::checked_sub", "usize::checked_add") and len(ct["args"]) == 2 and ct["args"][1]["k"] == "const":
                from .core import const_int as _ci
                if _ci(("const", ct["args"][1]["s"])) != 1 or d != 0:
                    return None
                d = -1 if fu["name"] == "checked_sub" else 1
                o = ct["args"][0]
                continue
            return None
        if ds[0][0] != "stmt":
            return None
        st = ds[0]
        rv = st[3]["rv"]
        bb, pos = st[1], st[2]
        if rv["k"] == "use":
            o = rv["op"]
            continue
        if rv["k"] == "binop" and rv["op"] in ("Sub", "SubWithOverflow", "SubUnchecked", "Add", "AddWithOverflow", "AddUnchecked") and rv["b"]["k"] == "const":
            from .core import const_int as _ci
            if _ci(("const", rv["b"]["s"])) != 1 or d != 0:
                return None
            d = -1 if rv["op"].startswith("Sub") else 1
            o = rv["a"]
            continue
        return None
    return None


def cursor_info(view, f):
    """analyse one raw-extension method: which self field subscripts get_index_mut2, how fields move,
    the guard dominating the yield"""
    vp = view.vp
    res = {"cursor": None, "subscript": ("none",), "moves": {}, "order_ok": False, "guard": None}
    # the yielding call: get_index_mut2 / get_index_mut on the map component
    ybb = None
    rd = None
    for bb, t in f.calls():
        nm = t["func"]["name"] if "func" in t else ""
        if nm in ("get_index_mut2", "get_index_mut", "get_index", "get_index_entry") and len(t["args"]) >= 2:
            a0 = vp.operand(f, t["args"][0])
            if component(a0) and component(a0)[0] == "map":
                ybb = bb
                sub = vp.operand(f, t["args"][1])
                res["subscript"] = sub
                # flow-insensitive VP gives phi(self.f ...) when the field is re-assigned; look at the operand place instead
                rd = cursor_read(f, t["args"][1], bb)
                res["cursor"] = rd[0] if rd else None
    if ybb is None:
        return res
    # moves: assignments to self.<field>
    for bi, b in enumerate(f.blocks):
        if b["cleanup"] or bi not in f.cfg.reach:
            continue
        for si, s in enumerate(b["stmts"]):
            if s["k"] != "assign" or not s["place"]["proj"]:
                continue
            pt = vp.place(f, s["place"])
            fld = self_field(pt)
            if fld is None:
                continue
            val = vp.rvalue(f, s["rv"])
            d = move_dir(val, fld)
            res["moves"].setdefault(fld, []).append({"dir": d, "bb": bi, "si": si})
    cur = res["cursor"]
    if cur and cur in res["moves"] and rd:
        mv = res["moves"][cur]
        cfg = f.cfg
        _, off, (rbb, rpos) = rd

        def before(a, b):
            """program point a = (bb, pos) is executed before b on every path that runs both (acyclic bodies)"""
            if a[0] == b[0]:
                return a[1] < b[1]
            return cfg.dominates(a[0], b[0]) and a[0] not in cfg.reachable_from(b[0])
        rels = set()
        for m in mv:
            mp = (m["bb"], m["si"])
            if before((rbb, rpos), mp):
                rels.add("read-first")
            elif before(mp, (rbb, rpos)):
                rels.add("move-first")
            else:
                rels.add("unordered")
        want_dir = 1 if f.name == "next" else -1
        # slot relative to the cursor's old value:  read-first: off ; move-first: dir + off
        slot = None
        if rels == {"read-first"}:
            slot = off
        elif rels == {"move-first"}:
            slot = want_dir + off
        want_slot = 0 if f.name == "next" else -1
        # the move is on every path that yields: no path entry -> lookup -> return that avoids every move
        mblocks = {m["bb"] for m in mv}
        complete = ybb in mblocks or cfg.escape_path(0, mblocks, start_after=False, targets={ybb}) is None or cfg.escape_path(ybb, mblocks) is None
        if 0 in mblocks:
            complete = True
        res["order_ok"] = slot == want_slot and complete and not f.cfg.loops
        res["slot"] = slot
    # guard: a switch on a comparison of two self fields that dominates the first state change / yield
    res["guard"] = find_guard(view, f, ybb, res)
    return res


def field_of_operand(f, o):
    """operand -> name of the self field it copies (following single-def temporaries syntactically)"""
    seen = 0
    while o["k"] in ("copy", "move") and seen < 8:
        pl = o["place"]
        if pl["proj"]:
            pr = pl["proj"]
            if pl["local"] == 1 and len(pr) == 2 and pr[0]["k"] == "deref" and pr[1]["k"] == "field":
                return pr[1].get("name")
            return None
        ds = f.defs.get(pl["local"], [])
        if len(ds) != 1 or ds[0][0] != "stmt" or ds[0][3]["rv"]["k"] != "use":
            return None
        o = ds[0][3]["rv"]["op"]
        seen += 1
    return None


def move_dir(val, fld):
    """value assigned to self.<fld> -> '+1' / '-1' / 'other'"""
    v = val
    if v[0] == "field" and v[1][0] == "binop":
        v = v[1]
    if v[0] == "binop" and v[1] in ("Add", "AddWithOverflow", "AddUnchecked", "Sub", "SubWithOverflow", "SubUnchecked"):
        a, b = v[2], v[3]
        if self_field_any(a) == fld and const_int(b) == 1:
            return "+1" if v[1].startswith("Add") else "-1"
    return "other"


def self_field_any(t):
    t2 = strip(t)
    if t2[0] == "phi":
        fs = {self_field(a) for a in t2[4]}
        fs.discard(None)
        return fs.pop() if len(fs) == 1 else None
    return self_field(t2)


def find_guard(view, f, ybb, res):
    vp = view.vp
    cfg = f.cfg
    first_effect = {ybb} | {m["bb"] for ms in res["moves"].values() for m in ms}
    for bi in sorted(cfg.reach):
        t = f.term(bi)
        if t["k"] != "switch":
            continue
        if not all(cfg.dominates(bi, e) for e in first_effect):
            continue
        d = vp.operand(f, t["discr"])
        if d[0] != "binop" or d[1] not in ("Lt", "Le", "Gt", "Ge", "Eq", "Ne"):
            continue
        fa, fb = self_field_any(d[2]), self_field_any(d[3])
        if fa is None or fb is None:
            continue
        # which edge leads to the yield?
        zero_target = [bb for v, bb in t["targets"] if v == 0]
        zt = zero_target[0] if zero_target else None
        to_yield_when_true = not (zt is not None and (zt == ybb or ybb in cfg.reachable_from(zt)) and not (
            t["otherwise"] == ybb or ybb in cfg.reachable_from(t["otherwise"])))
        op = d[1]

        def strict(front, back, op=op, fa=fa, fb=fb, tyt=to_yield_when_true):
            # condition that holds on the yield edge, normalised to a relation "fa REL fb"
            rel = op if tyt else {"Lt": "Ge", "Le": "Gt", "Gt": "Le", "Ge": "Lt", "Eq": "Ne", "Ne": "Eq"}[op]
            if fa == front and fb == back:
                return rel == "Lt"
            if fa == back and fb == front:
                return rel == "Gt"
            return False

        return {"fields": [fa, fb], "strict_front_lt_back": strict,
                "text": "%s(self.%s, self.%s) %s-edge" % (op, fa, fb, "true" if to_yield_when_true else "false")}
    return None


def r_wiring_all(ctx, view):
    """every `impl Iterator` of the crate that is NOT ExactSizeIterator (the ESI ones are R-ESI's): a delegating
    wrapper forwards each overridden method to the same-named inner method; a self-made one overrides only next/size_hint"""
    prog = view.prog
    ctx.cur = view
    for im in impls_of(prog, IT):
        T = im["self_desc"]
        if impl_for(prog, ESI, T) is not None or T.endswith("IterMut"):
            continue
        nx = method(prog, im, "next")
        ctx.anchor("%s::next" % T, nx is not None)
        dn = delegating_inner(view, nx)
        for item in im["items"]:
            if item["kind"] != "Fn":
                continue
            m = prog.fn(item["key"])
            if dn is not None and dn[0].endswith("::next"):
                d = delegating_inner(view, m)
                good = d is not None and d[1] == dn[1] and d[0].split("::")[-1] == item["name"] and single_call(m)
                ctx.ob("R-ESI", "%s:e3:wiring:%s" % (T, item["name"]), good, m.loc(), "forwards to the same-named inner method")
            else:
                ctx.ob("R-ESI", "%s:e3:override:%s" % (T, item["name"]), item["name"] in ("next", "size_hint"), m.loc(),
                       "self-made iterator defines `%s` (only next/size_hint are verifiable)" % item["name"])


# ------------------------------------------------------------------------------------------
# R-SELFMADE: hand-written cursor iterators that are neither raw-pointer steppers (R-CURSOR) nor pop-family
# consumers (R-SIDE) - none on the reviewed tree; a wrapper rewritten into a cursor iterator lands here
# ------------------------------------------------------------------------------------------
def selfmade_types(view):
    prog = view.prog
    raw = set(raw_extension_sites(view))
    out = []
    for im in impls_of(prog, IT):
        T = im["self_desc"]
        nx = method(prog, im, "next")
        if nx is None:
            continue
        dn = delegating_inner(view, nx)
        if dn is not None and dn[0].endswith("::next"):
            continue
        dei = impl_for(prog, DEI, T)
        nb = method(prog, dei, "next_back") if dei else None
        if nx.key in raw or (nb is not None and nb.key in raw):
            continue
        pops = [view.fx.call_info(nx, bb).local_callee for bb, _ in nx.calls()]
        if any(c and c.split("::")[-1].startswith("pop") for c in pops):
            continue
        esi = impl_for(prog, ESI, T)
        out.append((T, nx, nb, method(prog, esi, "len") if esi else None))
    return out


def _len_shape(view, sk, ln):
    """len() = X - Y  ->  (cx, cy, X term, Y term); len() = X -> (cx, None, X, None)"""
    lt = strip(ret_term(view, ln))
    if lt[0] == "field" and strip(lt[1])[0] == "binop":
        lt = strip(lt[1])
    if lt[0] == "binop" and lt[1] in ("Sub", "SubWithOverflow", "SubUnchecked"):
        return sk.c(lt[2]), sk.c(lt[3]), strip(lt[2]), strip(lt[3])
    if lt[0] == "call" and lt[1].endswith("saturating_sub") and len(lt[2]) == 2:
        return sk.c(lt[2][0]), sk.c(lt[2][1]), strip(lt[2][0]), strip(lt[2][1])
    return sk.c(lt), None, lt, None


def _paths(f, cap=300):
    cfg = f.cfg
    out = []
    st = [(0, (0,))]
    while st and len(out) < cap:
        b, p = st.pop()
        if f.term(b)["k"] == "return":
            out.append(p)
            continue
        for s in cfg.succ[b]:
            if s in p:
                return None   # a loop
            st.append((s, p + (s,)))
    return out


def _ret_kind(view, f, path):
    """'some' / 'none' / 'opt' (an Option handed through from a call) for the value returned along path"""
    last = {}
    for b in path:
        blk = f.blocks[b]
        for s in blk["stmts"]:
            if s["k"] == "assign" and not s["place"]["proj"]:
                last[s["place"]["local"]] = ("stmt", s["rv"])
        t = blk["term"]
        if t["k"] == "call" and not t["dest"]["proj"]:
            last[t["dest"]["local"]] = ("call", t)

    def kind(l, depth=0):
        d = last.get(l)
        if d is None or depth > 6:
            return "opt"
        if d[0] == "call":
            nm = d[1]["func"]["name"] if "func" in d[1] else ""
            return "none" if nm == "from_residual" else "opt"
        rv = d[1]
        if rv["k"] == "aggregate" and rv.get("agg") == "adt" and rv.get("path") == "std::option::Option":
            return "some" if rv["variant"] == "Some" else "none"
        if rv["k"] == "use" and rv["op"]["k"] in ("copy", "move") and not rv["op"]["place"]["proj"]:
            return kind(rv["op"]["place"]["local"], depth + 1)
        return "opt"
    return kind(0)


def r_selfmade(ctx, view, fixture=False):
    """R-SELFMADE.  A hand-written cursor iterator with an exact length `len() = X - Y` (Y the front cursor, X the back
    cursor or the container length) keeps `len()` equal to the number of elements still to come iff, path by path:
    a path that yields moves exactly the method's own cursor by one (next: Y+1, next_back: X-1) and is guarded by Y < X;
    a path that yields nothing moves no cursor.  Paths, moves and guards are read from the MIR of next / next_back."""
    from .rules_sift import Skel
    prog = view.prog
    if ctx is not None:
        ctx.cur = view
    sk = Skel(view)
    res = {}
    for (T, nx, nb, ln) in selfmade_types(view):
        key = T
        if ln is None:
            # no exact length is promised: size_hint of inexact iterators is R-ESI e5's business
            continue
        cx, cy, X, Y = _len_shape(view, sk, ln)
        bad = []
        notes = []
        for m, role in ((nx, "front"), (nb, "back")):
            if m is None:
                continue
            paths = _paths(m)
            if paths is None:
                notes.append("%s has a loop: not decided" % m.name)
                continue
            for p in paths:
                moves = []
                for b in p:
                    for si, s in enumerate(m.blocks[b]["stmts"]):
                        if s["k"] != "assign" or not s["place"]["proj"]:
                            continue
                        fld = self_field(view.vp.place(m, s["place"]))
                        if fld is None:
                            continue
                        moves.append((fld, move_dir(view.vp.rvalue(m, s["rv"]), fld)))
                rk = _ret_kind(view, m, p)
                lits = set()
                for a, b in zip(p, p[1:]):
                    if m.term(a)["k"] == "switch" and len(m.cfg.succ[a]) >= 2:
                        for l in sk.literals_of_edge(m, a, b):
                            lits.add(l)
                guarded = False
                if cy is not None:
                    guarded = ("Lt(%s,%s)" % (cy, cx), True) in lits
                    if not guarded:
                        # `container.get(Y)` answered Some and X is that container's length
                        for txt, pol in lits:
                            if pol and txt.startswith("some(") and cy in txt and X[0] == "call" and X[1].split("::")[-1] == "len" and X[2] and sk.c(X[2][0]) in txt:
                                guarded = True
                else:
                    guarded = ("GE(%s,1)" % cx, True) in lits
                where = "%s path %s" % (m.name, "->".join("bb%d" % b for b in p))
                yields = rk == "some" or (rk == "opt" and guarded)
                if yields:
                    want_fld = (self_field(Y) if Y is not None else None) if role == "front" else self_field(X)
                    want_dir = "+1" if role == "front" else "-1"
                    if cy is None and role == "front":
                        want_fld, want_dir = self_field(X), "-1"
                    if want_fld is None:
                        notes.append("%s: the %s bound of len() is not a cursor field: its step is not decided" % (m.name, role))
                    elif moves != [(want_fld, want_dir)]:
                        bad.append("%s yields but moves %s (must move exactly self.%s by %s)" % (where, moves or "nothing", want_fld, want_dir))
                    if not guarded and want_fld is not None:
                        bad.append("%s yields without the guard %s < %s: len() underflows / an element is yielded from both ends" % (where, cy, cx))
                else:
                    if moves:
                        bad.append("%s yields nothing (or hands an unguarded Option through) but moves %s" % (where, moves))
        res[T] = (bad, notes)
        if not fixture:
            loc = nx.loc()
            ctx.ob("R-SELFMADE", key, not bad, loc,
                   ("len() = %s - %s; every yielding path moves its own cursor once under the guard, no other path moves a cursor%s" % (
                       cx, cy, ("; " + "; ".join(notes)) if notes else "")) if not bad else "; ".join(bad[:3]))
    return res


# ------------------------------------------------------------------------------------------
# R-LENDING: what an iterator has handed out by `&mut` is not touched again behind the borrower's back
# ------------------------------------------------------------------------------------------
def _has_mut_ref(ty):
    if not isinstance(ty, dict):
        return False
    if ty.get("k") == "ref" and ty.get("mut"):
        return True
    for k in ("inner",):
        if k in ty and _has_mut_ref(ty[k]):
            return True
    for k in ("args", "elems"):
        for a in ty.get(k) or []:
            if _has_mut_ref(a):
                return True
    return False


def r_lending(ctx, view, only_types=None):
    """R-LENDING.  `Iterator::Item` cannot borrow from the `&mut self` of `next`: a `&'a mut P` an iterator yields stays usable
    for the whole borrow 'a of the queue - after further `next` calls, after `collect()`, after the iterator itself has been
    dropped.  So an iterator type that yields `&mut` into the queue must not, in its destructor, read or write what those
    references point to: the access aliases a live `&mut` (undefined behaviour; a genuine data race once the references are sent to a
    scoped thread), and a rebuild done in the destructor is a rebuild done BEFORE the writes the caller still makes."""
    prog = view.prog
    fx = view.fx
    ctx.cur = view
    n = 0
    for dr in impls_of(prog, "std::ops::Drop"):
        T = dr["self_desc"]
        if only_types and not only_types(T):
            continue
        it = impl_for(prog, IT, T)
        if it is None:
            continue
        item = next((x.get("ty") for x in it["items"] if x.get("name") == "Item" and x.get("kind") == "Type"), None)
        if not _has_mut_ref(item):
            continue
        d = method(prog, dr, "drop")
        if d is None:
            continue
        n += 1
        touched = []
        for k in sorted(fx.reach(d.key)):
            g = prog.fn(k)
            if g is None:
                continue
            for e in fx.events(g):
                if e["kind"] in ("mr", "mw", "mwraw") and e.get("comp") == "map":
                    touched.append("%s in %s" % (e.get("name"), k.split("::")[-1]))
                elif e["kind"] == "ext" and e.get("ci") is not None and e["ci"].cmp:
                    touched.append("compares priorities in %s" % k.split("::")[-1])
        touched = sorted(set(touched))
        ctx.ob("R-LENDING", "%s:drop-leaves-yielded-entries-alone" % T, not touched, d.loc(),
               "the destructor does not access the map entries" if not touched else
               "the items (%s) outlive the iterator, yet its destructor accesses the entries they borrow: %s" % (
                   (item or {}).get("s", "?"), "; ".join(touched)[:300]))
    return n
