"""Property -> rules table.  Each rule is a necessary, structural condition of the property
(see DESIGN.md sections 3 and 4)."""
from . import rules_iter


def _iter_rules_c09(ctx, view):
    rules_iter.r_cursor(ctx, view)
    rules_iter.r_esi(ctx, view, only_types=lambda T: T.endswith("IterMut"), key_floor=1)


def _iter_rules_c13(ctx, view):
    rules_iter.r_esi(ctx, view, only_types=lambda T: not T.endswith("IterMut"), key_floor=4)


PROPS = {
    "C09": {
        "rules": [_iter_rules_c09],
        "explanation": "R-CURSOR over every function that turns a raw pointer back into a reference (the complete set of "
                       "lifetime extensions, enumerated from MIR): single cursor per method, strict direction, distinct front/back "
                       "cursors, strict front<back guard dominating every yield, len() = distance between cursors; R-ESI e1/e2/e4 for the IterMut types.",
        "trusted": ["rustc type check + MIR construction", "indexmap: get_index_mut2(k) yields disjoint entries for distinct k"],
        "assumptions": ["a slot index is produced at most once per iterator lifetime iff the cursor discipline holds"],
    },
    "C13": {
        "rules": [_iter_rules_c13],
        "explanation": "R-ESI for every `impl ExactSizeIterator` of the crate: size_hint defined (e1), size_hint and len agree (e2), "
                       "every overridden Iterator/DoubleEndedIterator method of a delegating wrapper forwards to the same-named method of "
                       "the same inner field (e3), self-made iterators override only next/next_back/size_hint/len, fusedness (e4).",
        "trusted": ["indexmap iterators are exact, fused and double-ended-consistent (documented contract)"],
        "assumptions": [],
    },
}


def configs_for(pid, tier):
    if tier == "thorough":
        return ["std", "serde", "nostd"]
    if pid == "C15":
        return ["serde"]
    return ["std"]


def run(ctx, pid, tier):
    spec = PROPS[pid]
    for cfg in configs_for(pid, tier):
        view = ctx.view(cfg)
        for r in spec["rules"]:
            r(ctx, view)
