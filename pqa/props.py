"""Property -> rules table.  Each rule is a necessary, structural condition of the property
(see DESIGN.md sections 3 and 4)."""
from . import rules_iter
from . import rules_decl as D


def _iter_rules_c09(ctx, view):
    rules_iter.r_cursor(ctx, view)
    rules_iter.r_esi(ctx, view, only_types=lambda T: T.endswith("IterMut"), key_floor=1)


def _iter_rules_c13(ctx, view):
    rules_iter.r_esi(ctx, view, only_types=lambda T: not T.endswith("IterMut"), key_floor=4)


PROPS = {
    "C09": {
        "rules": [_iter_rules_c09],
        "explanation": "R-CURSOR over every function that turns a raw pointer back into a reference (the complete set of "
                       "lifetime extensions, enumerated from MIR): single cursor per method, strict direction, distinct front/back "
                       "cursors, strict front<back guard dominating every yield, len() = distance between cursors; R-ESI e1/e2/e4 for the IterMut types.",
        "trusted": ["rustc type check + MIR construction", "indexmap: get_index_mut2(k) yields disjoint entries for distinct k"],
        "assumptions": ["a slot index is produced at most once per iterator lifetime iff the cursor discipline holds"],
    },
    "C13": {
        "rules": [_iter_rules_c13],
        "explanation": "R-ESI for every `impl ExactSizeIterator` of the crate: size_hint defined (e1), size_hint and len agree (e2), "
                       "every overridden Iterator/DoubleEndedIterator method of a delegating wrapper forwards to the same-named method of "
                       "the same inner field (e3), self-made iterators override only next/next_back/size_hint/len, fusedness (e4).",
        "trusted": ["indexmap iterators are exact, fused and double-ended-consistent (documented contract)"],
        "assumptions": [],
    },
}


PROPS.update({
    "C12": {
        "rules": [D.r_keymut],
        "explanation": "R-KEYMUT, a who-may-call rule over the typed indexmap API: (k1) the set of functions that can obtain `&mut I` of a "
                       "stored key equals the sanctioned accessor set, (k2) push/push_increase/push_decrease/change_priority(_by) reach "
                       "neither such a function nor any entry-removing or reordering map write, (k3) the sift functions never write the map, "
                       "(k4) lookups forward the borrowed key unmodified.",
        "trusted": ["indexmap: insert/entry keep the stored key of a present entry; only MutableKeys/replace APIs yield &mut K"],
        "assumptions": ["interior mutability inside user item types is outside the property"],
    },
    "C14": {
        "rules": [D.r_eqfoot],
        "explanation": "R-EQFOOT: Store::eq is exactly IndexMap's equality of the two `map` fields (footprint {map}), both queue eq impls "
                       "delegate to it and define no `ne`; Clone for Store and both queues is derived or field-complete (incl. clone_from); "
                       "every field type owns its data.",
        "trusted": ["indexmap PartialEq is set equality of (key,value) pairs, hasher- and order-independent"],
        "assumptions": [],
    },
    "C16": {
        "rules": [D.r_reset, D.r_dropless],
        "explanation": "R-RESET: Store::drain and Store::clear empty heap, qp, size and map on every normal path; in drain the three table "
                       "resets dominate the creation of the inner full-range map drain and the returned iterator wraps exactly it (nothing "
                       "deferred to a destructor, so mem::forget is harmless); public drain/clear only delegate. R-DROPLESS: the only Drop "
                       "impls are the two IterMut, whose constructors write nothing.",
        "trusted": ["indexmap::Drain empties the map even when leaked (drain leak-safety of std Vec::drain)"],
        "assumptions": [],
    },
    "C17": {
        "rules": [D.r_capfwd],
        "explanation": "R-CAPFWD: each capacity method of Store calls the same-named method of map, heap and qp with the unmodified argument "
                       "on every successful path and does nothing else; try_ forms contain no panicking construct and propagate errors with `?`; "
                       "queue methods delegate; capacity() is map.capacity(); with_capacity gives the capacity to all three containers; "
                       "capacity-invisibility: a capacity() result is only ever returned by a capacity accessor.",
        "trusted": ["std/indexmap reserve contracts (capacity >= len + additional)"],
        "assumptions": [],
    },
    "C18": {
        "rules": [D.r_nohash],
        "explanation": "R-NOHASH: no call site in any crate body resolves to a method of Hash/Hasher/BuildHasher, to IndexMap::hasher or to a "
                       "raw-hash API; values of the hasher type flow only into constructors; the hasher parameter carries only BuildHasher(+Default) "
                       "bounds. By parametricity the crate can then depend on the hasher only through the insertion-ordered map.",
        "trusted": ["indexmap's observable behaviour as an insertion-ordered map is hasher-independent given consistent Hash/Eq"],
        "assumptions": [],
    },
})


def configs_for(pid, tier):
    if tier == "thorough":
        return ["std", "serde", "nostd"]
    if pid == "C15":
        return ["serde"]
    return ["std"]


def run(ctx, pid, tier):
    spec = PROPS[pid]
    for cfg in configs_for(pid, tier):
        view = ctx.view(cfg)
        for r in spec["rules"]:
            r(ctx, view)
