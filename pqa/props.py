"""Property -> rules table.  Each rule is a necessary, structural condition of the property
(see DESIGN.md sections 3 and 4); what is NOT decided is stated in MANIFEST level_note."""
from . import rules_iter as I
from . import rules_decl as D
from . import rules_order as O
from . import rules_tables as T
from . import rules_misc as M
from .rules_decl import PQ, DPQ

try:
    from . import rules_sift as S
except ImportError:  # pragma: no cover
    S = None
try:
    from . import rules_cost as C
except ImportError:  # pragma: no cover
    C = None
try:
    from . import rules_bounds as B
except ImportError:  # pragma: no cover
    B = None


def _guard_rules():
    """a rule whose named anchor is gone reports that (deferred CHECK-ERROR) instead of ending the whole check: the other rules
    of the bundle still report what the changed code does, so a change that both deletes an anchor and breaks the property
    is reported as the VIOLATION it is"""
    import functools
    from .engine import CheckError

    def wrap(fn):
        @functools.wraps(fn)
        def g(ctx, *a, **k):
            try:
                return fn(ctx, *a, **k)
            except CheckError as e:
                msg = str(e)
                if not msg.startswith("anchor lost"):
                    raise
                ctx.blind.append("%s (rule function %s)" % (msg, fn.__name__))
                return None
        g._guarded = True
        return g
    for mod in (I, D, O, T, M, S, C, B):
        if mod is None:
            continue
        for name in dir(mod):
            fn = getattr(mod, name)
            if name.startswith("r_") and callable(fn) and not getattr(fn, "_guarded", False) and getattr(fn, "__module__", "") == mod.__name__:
                setattr(mod, name, wrap(fn))


_guard_rules()


def fixture_once(ctx, rules):
    """zero-count rules are proved non-blind against the positive fixture, once per check run"""
    if getattr(ctx, "_fixture_done", None) == tuple(rules):
        return
    from . import fixture
    fixture.must_match(ctx, rules)
    ctx._fixture_done = tuple(rules)


# ---- rule bundles --------------------------------------------------------------------------
def c01(ctx, v):
    O.r_restore(ctx, v, PQ)
    O.r_upboth(ctx, v, PQ)
    O.r_extreme(ctx, v, PQ)
    D.r_expose(ctx, v, PQ)
    if S:
        S.r_sift(ctx, v, PQ)
    if B:
        B.r_units(ctx, v, only=lambda f: f.key.startswith("priority_queue::"))
    representation(ctx, v)
    M.r_strat(ctx, v)   # append: whole stores are exchanged (never handles), `other` is left empty - or IT holds unsifted elements
    I.r_lending(ctx, v, only_types=lambda T_: T_.startswith("priority_queue::"))
    ctx.floor("R-RESTORE[PriorityQueue]", sum(1 for o in ctx.obs if o.rule == "R-RESTORE" and o.config == v.config), 15)


def dbgpure_once(ctx, v, kinds):
    """R-DBGPURE once per check run (it compares the std view with the debug-assertions build)"""
    if v.config == "std" and not getattr(ctx, "_dbgpure_done", False):
        ctx._dbgpure_done = True
        D.r_dbgpure(ctx, v, kinds=kinds)


def representation(ctx, v):
    """the heap order is a statement about heap[] / qp[] / map: the extreme element is found only if the three tables are
    mutually consistent, so the structural conditions of that consistency are necessary conditions of C01 / C02 too"""
    T.r_tables(ctx, v, want=("R-GROW",))
    T.r_growval(ctx, v)
    T.r_storelit(ctx, v)
    T.r_repair(ctx, v)
    if S:
        S.r_prim(ctx, v)
    dbgpure_once(ctx, v, ("TW", "MW", "KEYMUT", "CMP", "MRUC"))
    D.r_newtypeord(ctx, v)


def c02(ctx, v):
    O.r_restore(ctx, v, DPQ)
    O.r_upboth(ctx, v, DPQ)
    O.r_extreme(ctx, v, DPQ)
    D.r_expose(ctx, v, DPQ)
    if S:
        S.r_sift(ctx, v, DPQ)
    if B:
        B.r_units(ctx, v, only=lambda f: f.key.startswith("double_priority_queue::"))
    representation(ctx, v)
    M.r_strat(ctx, v)
    I.r_lending(ctx, v, only_types=lambda T_: T_.startswith("double_priority_queue::"))
    ctx.floor("R-RESTORE[DoublePriorityQueue]", sum(1 for o in ctx.obs if o.rule == "R-RESTORE" and o.config == v.config), 15)


def c03(ctx, v):
    dbgpure_once(ctx, v, ("TW", "MW", "KEYMUT"))
    T.r_tables(ctx, v, want=("R-GROW",))
    T.r_growval(ctx, v)
    T.r_storelit(ctx, v)
    T.r_repair(ctx, v)
    if S:
        S.r_prim(ctx, v)
    r_absent(ctx, v)
    M.r_once(ctx, v)  # the pop_*_if family removes exactly the element its predicate saw
    M.r_assign(ctx, v)
    M.r_readers(ctx, v)
    # "iter, into_iter ... report exactly that set": the wrappers around indexmap's iterators forward every method they define
    I.r_esi(ctx, v, only_types=lambda T_: T_.startswith("core_iterators::"), key_floor=3)
    M.r_returns(ctx, v)
    D.r_keymut(ctx, v, only=("k3",))
    M.r_strat(ctx, v)
    # the histories C03 quantifies over contain push_increase / push_decrease: "the last priority assigned" is decided there by
    # one strict comparison with the stored priority (a tie assigns nothing and hands the offered priority back)
    M.r_strict(ctx, v)


def r_absent(ctx, v):
    """operations naming an absent item change nothing: in change_priority(_by) and remove every write / re-sift is
    control-dependent on the Some edge of the keyed lookup (closure given to an Option combinator, if-let arm, or code after `?`)"""
    from .core import strip, walk
    prog = v.prog
    ctx.cur = v
    for name in ("change_priority", "change_priority_by", "remove"):
        for owner in ("store::Store", PQ, DPQ):
            f = prog.fn("%s::%s" % (owner, name))
            ctx.anchor("%s::%s" % (owner, name), f is not None)
            bad = []
            # blocks dominated by the Some edge of a switch on the lookup's Option result
            some_dom = set()
            for bi in sorted(f.cfg.reach):
                t = f.term(bi)
                if t["k"] != "switch":
                    continue
                d = strip(v.vp.operand(f, t["discr"]))
                if d[0] == "discr" and any(x[0] == "call" and x[1].split("::")[-1] in (
                        "get_full_mut", "swap_remove_full", "change_priority", "change_priority_by", "remove", "branch", "get_full_mut2", "get_mut") for x in walk(d)):
                    from .core import edge_presence
                    for tb in f.cfg.succ[bi]:
                        if edge_presence(d, t, tb) == "present" and len(f.cfg.pred[tb]) == 1:
                            some_dom |= {b for b in f.cfg.reach if f.cfg.dominates(tb, b)}
            for ev in v.fx.events(f):
                eff = ev["kind"] == "tw" or (ev["kind"] == "mw" and ev.get("mclass") in ("grow", "clear", "retain", "reorder"))
                if ev["kind"] == "call" and ev["callee"].split("::")[-1] in ("up_heapify", "heapify", "heap_build", "bubble_up", "push"):
                    eff = True
                if eff and ev["bb"] not in some_dom:
                    bad.append("%s line %d" % (ev.get("how") or ev.get("name") or ev.get("callee"), ev["span"]["line"]))
            ctx.ob("R-ABSENT", "%s::%s" % (owner.split("::")[-1], name), not bad, f.loc(),
                   "every write and re-sift is control-dependent on the successful lookup" if not bad else
                   "effects that also run when the item is absent: %s" % "; ".join(bad))


def c04(ctx, v):
    fixture_once(ctx, ["R-UNSAFEKINDS", "R-HINT", "R-ORDERPANIC"])
    if B:
        B.r_assert(ctx, v)
    I.r_lending(ctx, v)
    D.r_newtypeord(ctx, v)
    if B:
        B.r_orderpanic(ctx, v)
    dbgpure_once(ctx, v, ("TW", "MW", "KEYMUT", "CMP", "MRUC"))
    # an allocation request computed from the UPPER bound of a size_hint (not a promise) is a capacity-overflow panic on a
    # legal iterator
    M.r_hint(ctx, v)
    T.r_tables(ctx, v, want=("R-GROW",))
    T.r_growval(ctx, v)
    T.r_storelit(ctx, v)
    T.r_repair(ctx, v)
    if S:
        S.r_prim(ctx, v)
        # the sifts write heap[] / qp[] through unchecked accesses cell by cell: that the two stay inverse permutations (what
        # every later justification of R-BOUNDS starts from) is a property of the exact write sequence - the reviewed skeleton
        for Q in (PQ, DPQ):
            S.r_sift(ctx, v, Q)
    D.r_writers(ctx, v)
    D.r_unsafekinds(ctx, v)
    D.r_reset(ctx, v)
    if B:
        B.r_units(ctx, v)
        B.r_bounds(ctx, v)
    # R-BOUNDS discharges `pos_back - pos` by the iterator invariant pos <= pos_back: that invariant is R-CURSOR's
    # (raw-pointer iterators) / R-SELFMADE's (hand-written safe cursor iterators, none on the reviewed tree)
    I.r_cursor(ctx, v)
    I.r_selfmade(ctx, v)


def c05(ctx, v):
    if C:
        C.r_cost(ctx, v)
    dbgpure_once(ctx, v, ("CMP",))


def c06(ctx, v):
    representation(ctx, v)   # `len()`, `pop*` and the sifts work on the tables: they must be mutually consistent
    M.r_side(ctx, v)
    I.r_esi(ctx, v, only_types=lambda T_: T_.endswith("IntoSortedIter"), key_floor=1)
    # sorted consumption is pop after pop: the heap-order rules of C01/C02 are necessary conditions of C06
    for Q in (PQ, DPQ):
        O.r_restore(ctx, v, Q)
        O.r_upboth(ctx, v, Q)
        O.r_extreme(ctx, v, Q, only=("pop", "pop_min", "pop_max"))
        if S:
            S.r_sift(ctx, v, Q)


def c07(ctx, v):
    fixture_once(ctx, ["R-HINT", "R-CAPFWD"])
    M.r_hint(ctx, v)
    M.r_strat(ctx, v)
    M.r_consume(ctx, v)
    # "the outcome depends only on the sequence of pairs": the capacity of either queue is not part of that sequence (round 13:
    # append keeping whichever store "already has room")
    D.r_capinvisible(ctx, v)
    only = lambda root, d: d.kind == "BULK"
    O.r_restore(ctx, v, PQ, only=only)
    O.r_restore(ctx, v, DPQ, only=only)
    bulk = lambda f: any(k in f.key for k in ("::from", "::from_iter", "::extend", "::append"))
    T.r_tables(ctx, v, want=("R-GROW",), only=bulk)
    T.r_growval(ctx, v, only=bulk)
    T.r_storelit(ctx, v)


def c08(ctx, v):
    # ANYQP / ANY: the predicate (or the code around it) reached a stored priority by another route than the reviewed primitive
    # (round 13: `test_position(i, f)` followed by a fresh `pop_max()`)
    sel = lambda root, d: d.kind in ("BULK", "PRED", "ANYQP", "ANY") and any(
        k in root.key for k in ("retain", "pop_if", "pop_min_if", "pop_max_if", "iter_mut", "IterMut", "into_iter"))
    O.r_restore(ctx, v, PQ, only=sel)
    O.r_restore(ctx, v, DPQ, only=sel)
    M.r_once(ctx, v)
    T.r_tables(ctx, v, want=("R-GROW",), only=lambda f: "retain" in f.key)
    D.r_expose(ctx, v, PQ)
    D.r_expose(ctx, v, DPQ)
    O.r_extreme(ctx, v, PQ, only=("pop_if",))
    O.r_extreme(ctx, v, DPQ, only=("pop_min_if", "pop_max_if"))
    I.r_cursor(ctx, v)  # "iter_mut visits each element at most once"
    I.r_lending(ctx, v)  # "every priority written through it is the element's priority afterwards ... correctly ordered again"


def c09(ctx, v):
    I.r_cursor(ctx, v)
    I.r_esi(ctx, v, only_types=lambda T_: T_.endswith("IterMut"), key_floor=1)


def c10(ctx, v):
    fixture_once(ctx, ["R-UNSAFEKINDS"])
    dbgpure_once(ctx, v, ("TW", "MW", "KEYMUT", "CMP", "MRUC"))
    T.r_tables(ctx, v, want=("R-TORN",))
    D.r_dropless(ctx, v)
    D.r_unsafekinds(ctx, v)
    D.r_reset(ctx, v, only=("drain",))


def c11(ctx, v):
    M.r_strict(ctx, v)
    sel = lambda root, d: root.name in ("push_increase", "push_decrease", "push")
    O.r_restore(ctx, v, PQ, only=sel)
    O.r_restore(ctx, v, DPQ, only=sel)


def c12(ctx, v):
    D.r_keymut(ctx, v)
    dbgpure_once(ctx, v, ("MW", "KEYMUT"))
    # "lookups ... address the same element": get / get_mut / get_priority of the queues return what the keyed lookup of the
    # map returns for that key (and nothing a shortcut found by other means)
    M.r_readers(ctx, v)
    # edits made through the mutable accessors persist only if those accessors address the element they claim to:
    # same position as the matching peek (R-EXTREME) and the right table with the right kind of subscript (R-UNITS)
    O.r_extreme(ctx, v, PQ, only=("peek", "peek_mut"))
    O.r_extreme(ctx, v, DPQ, only=("peek_min", "peek_min_mut", "peek_max", "peek_max_mut"))
    if B:
        B.r_units(ctx, v)
    # "changes made ... through iter_mut persist": each element is handed out once, by the cursor discipline
    I.r_cursor(ctx, v)


def c13(ctx, v):
    fixture_once(ctx, ["R-SELFMADE"])
    representation(ctx, v)   # the sorted iterators report the queue's length: `size` must agree with the tables
    I.r_selfmade(ctx, v)
    I.r_esi(ctx, v, only_types=lambda T_: not T_.endswith("IterMut"), key_floor=4)
    I.r_wiring_all(ctx, v)
    M.r_side(ctx, v)  # the sorted iterators consume by the queue's own pop family only
    I.r_cursor(ctx, v)  # the IterMuts are iterators too: each element once, exact counts where declared


def c14(ctx, v):
    fixture_once(ctx, ["R-CAPFWD", "R-NOHASH"])
    D.r_eqfoot(ctx, v)
    D.r_nohash(ctx, v)        # "regardless of ... hasher state": nothing in the crate looks at a hash or at the hasher
    D.r_capinvisible(ctx, v)   # a clone does not keep the capacity: nothing may depend on it


def c15(ctx, v):
    if v.config != "serde":
        return
    M.r_serde(ctx, v)
    M.r_hint(ctx, v)   # "never panics": the length a sequence announces is input, not a size
    # "gives a queue equal to the original": equality is the map's; "never panics": the reader's own arithmetic / accesses
    D.r_eqfoot(ctx, v)
    if B:
        B.r_bounds(ctx, v, only=lambda f: "serde" in f.key or "Deserialize" in f.key or "Serialize" in f.key)
    only = lambda root, d: "Deserialize" in root.key
    O.r_restore(ctx, v, PQ, only=only)
    O.r_restore(ctx, v, DPQ, only=only)
    # the table-writing bodies the reader runs: its own, or the reviewed bulk constructors it hands the pairs to
    vs = "<store::serde::StoreVisitor as Visitor>::visit_seq"
    reached = set(v.fx.reach(vs)) if v.prog.fn(vs) is not None else set()
    T.r_tables(ctx, v, want=("R-GROW",), only=lambda f: "serde" in f.key or "visit_seq" in f.key or "Deserialize" in f.key or f.key in reached)
    T.r_storelit(ctx, v)
    n = sum(1 for o in ctx.obs if o.rule == "R-RESTORE" and o.config == "serde")
    ctx.floor("R-RESTORE[Deserialize]", n, 2)


def c16(ctx, v):
    fixture_once(ctx, ["R-UNSAFEKINDS"])
    # "clear drops them all", "drain yields every stored element": the map's own clear / drain do, unless the crate forgets
    # ownership somewhere (mem::forget, ManuallyDrop, leak, raw writes)
    D.r_unsafekinds(ctx, v)
    D.r_reset(ctx, v)
    D.r_dropless(ctx, v)
    I.r_esi(ctx, v, only_types=lambda T_: T_.endswith("Drain"), key_floor=1)


def c17(ctx, v):
    D.r_capfwd(ctx, v)
    fixture_once(ctx, ["R-CAPFWD"])


def c18(ctx, v):
    D.r_nohash(ctx, v)
    fixture_once(ctx, ["R-NOHASH", "R-CAPFWD"])
    # the capacity a hash table reports depends on how its hasher spread the keys (tombstones): behaviour that depends on
    # capacity() depends on the hasher
    D.r_capinvisible(ctx, v)
    # a stored key that crate code rewrites in place stays filed under the hash of its OLD value: whether it is found
    # afterwards depends on how the hasher spreads the two values (an all-colliding hasher hides it)
    D.r_keymut(ctx, v)


TRUST_RUSTC = "rustc type checking, trait resolution and MIR construction (the analysis reads what the compiler compiles)"

PROPS = {
    "C01": {"rules": [c01], "explanation":
            "R-RESTORE: every dirty event of PriorityQueue (priority write through the entry API, Store::change_priority(_by), swap_remove, "
            "swap_remove_if, Store::remove, new leaf, bulk Store operations, taking another queue's Store, IterMut) is followed on every "
            "feasible normal path by a restorer sufficient for its kind and addressed to the same position (value provenance), vacuity guards "
            "recognised exactly (pos >= len, len <= 1); R-UPBOTH on up_heapify; R-EXTREME: peek/peek_mut/pop/pop_if address the root and "
            "yield None on the empty queue; R-EXPOSE: the frozen inventory of APIs handing out &mut P; R-SIFT: role-based comparison facts of "
            "heapify/bubble_up/heap_build against the reviewed max-heap skeleton (read from the variable-normalised MIR, new private "
            "helpers inlined); R-UNITS on the sift functions; representation prerequisites R-GROW, R-GROWVAL (the number pushed onto heap/qp is "
            "the new entry's own), R-REPAIR, R-PRIM (reviewed skeletons of Store::swap / swap_remove / remove).",
            "trusted": [TRUST_RUSTC, "indexmap contracts"], "assumptions": ["restorers are correct given R-SIFT's structural facts"]},
    "C02": {"rules": [c02], "explanation":
            "As C01 for DoublePriorityQueue: R-RESTORE (pop_min/pop_max -> heapify(find_*), pop_max_if -> up_heapify), R-UPBOTH (both ends of the "
            "move re-sifted), R-EXTREME for the min and the max accessor groups incl. the arms of find_min/find_max, R-EXPOSE, R-SIFT incl. "
            "R-DUAL (heapify_min/max and bubble_up_min/max are polarity duals; candidate set is children+grandchildren); the same "
            "representation prerequisites as C01 (R-GROW, R-GROWVAL, R-REPAIR, R-PRIM).",
            "trusted": [TRUST_RUSTC, "indexmap contracts"], "assumptions": []},
    "C03": {"rules": [c03], "explanation":
            "R-GROW (table-consistency automaton over every feasible path of every table-writing body: map, heap, qp and size change by the same "
            "amount; growth only for an absent key), R-GROWVAL (heap/qp receive the new entry's own number: a length read before it grows, "
            "nothing but the group's own growth in between, or a counter paired with the pushes), R-REPAIR (index repairs of the shrink "
            "primitives are reached on every path), R-PRIM (Store::swap / swap_remove / remove against their reviewed guarded-effect skeletons), "
            "R-ABSENT (absent-item paths are effect-free), R-ASSIGN (the priority stored is the offered one), R-READERS (len/is_empty/get*/iter/"
            "into_iter/into_vec read the map / size and the queue wrappers return what the Store functions return), R-RETURNS (provenance of every "
            "returned old priority / removed pair), R-ONCE/R-IFF for the pop_if family, R-KEYMUT k3 (sifts move indices, never entries), "
            "R-STRAT (which of item/priority a bulk path writes for a present key), R-STRICT (push_increase / push_decrease assign only on one "
            "strict comparison; a tie hands the offered priority back).",
            "trusted": [TRUST_RUSTC, "indexmap: swap_remove moves only the last entry"], "assumptions": []},
    "C04": {"rules": [c04], "explanation":
            "R-BOUNDS: every get_unchecked(_mut), unsafe call, unwrap and overflow-checked arithmetic site has a recognised justification relative "
            "to the representation invariant (dominating guard, value read from the inverse table, index returned by indexmap, parameter -> "
            "precondition discharged at every call site; a guard on the length is worth only what the removals between the read of the length "
            "and the use leave of it); R-UNITS (heap subscripts are Positions, qp/map-slot subscripts are Indexes); R-GROW, R-GROWVAL, "
            "R-REPAIR, R-PRIM, R-RESET (structural conditions for the invariant); R-SIFT (the sift functions write heap[]/qp[] cell by cell: the reviewed "
            "write skeleton is what keeps them inverse permutations); R-WRITERS (who writes the tables); R-UNSAFEKINDS; R-CURSOR; R-HINT (no allocation "
            "request is computed from the upper bound of a size_hint); R-STORELIT (a Store literal is the empty store or a field-wise copy / move of one "
            "other Store, never assembled from separately computed parts); R-ORDERPANIC (no explicit panic - panic!, assert!, debug_assert!, read on the "
            "raw MIR behind `cfg!(debug_assertions)` too - is control-dependent on a comparison of priorities: the heap order is not an invariant "
            "fault-free use preserves, a leaked iter_mut guard leaves it unspecified); R-DBGPURE (the default configuration is extracted a second time "
            "with debug assertions on and compared body by body: code that exists only under debug assertions - `#[cfg(debug_assertions)]` items, "
            "`debug_assert!` bodies - writes no table, no map entry, obtains no key mutably, compares no priorities and runs no other user code, "
            "so the verdicts, all computed on the release-like build, carry over to the build the tests and most users run).",
            "trusted": [TRUST_RUSTC], "assumptions": ["container lengths <= isize::MAX (no overflow of len+1, 2*i+2)"]},
    "C05": {"rules": [c05], "explanation":
            "R-COST: comparison-cost class of every public entry point from the reachability of priority-comparison sites (parametricity: "
            "Ord/PartialOrd predicates on P) and loop shape: ZERO (no comparison reachable), ONE (peek_max: one selection over a 2-array), LOG "
            "(comparisons only outside loops or inside tree-path loops whose induction Position moves by parent/child steps; no bulk function "
            "reachable), BULK (exactly one heap_build outside loops; Floyd shape of heap_build).",
            "trusted": [TRUST_RUSTC], "assumptions": ["constants of the bounds are asserted from the shape, not derived"]},
    "C06": {"rules": [c06], "explanation":
            "R-SIDE: which end each sorted consumer uses (next=pop/pop_min, next_back=pop_max), consumption by the pop family only (each yielded "
            "element leaves the queue), into_*_vec loops push every popped item and leave only on None, len() is the queue's length; R-ESI for "
            "the sorted iterator.", "trusted": [TRUST_RUSTC], "assumptions": ["monotonicity itself is C01/C02's undecided core"]},
    "C07": {"rules": [c07], "explanation":
            "R-HINT (taint: the upper bound of Iterator::size_hint reaches no allocation request and no overflow-checked arithmetic, "
            "interprocedurally), R-STRAT (first/last/receiver-wins table; both Extend strategies write the same part of a present entry; append "
            "swaps if and only if other is strictly longer and always drains other; the queue-level FromIterator / From<Vec> reach only Store-level "
            "strategies with their own duplicate policy - last pair wins / first pair stays - whatever the size hint says), R-RESTORE BULK instances (heap_build after every bulk path), "
            "R-GROW, R-GROWVAL and R-STORELIT for from/from_iter/extend/append, R-CONSUME (every path of extend/from_iter/from reads the whole source: no early return "
            "on a size hint or a length, loops over next() end only on None), capacity-invisibility (no capacity() result reaches a branch or an argument: which priority survives a clash "
            "may not depend on the allocation history).", "trusted": [TRUST_RUSTC], "assumptions": []},
    "C08": {"rules": [c08], "explanation":
            "R-RESTORE for retain/retain_mut/pop_*_if/IterMut-Drop, R-ONCE (user predicate invoked exactly once per element/call, only through "
            "the Store primitive), R-IFF (swap_remove_if removes iff the predicate accepted; the refused path writes nothing), R-GROW retain "
            "group, R-EXTREME (predicate sees the extreme), R-EXPOSE; R-LENDING (an iterator that yields `&mut` into the queue - its items outlive it - does not "
            "access the entries in its destructor: a rebuild there runs before the writes the caller still makes).", "trusted": [TRUST_RUSTC, "indexmap retain2 visits each entry once"],
            "assumptions": []},
    "C09": {"rules": [c09], "explanation":
            "R-CURSOR over every function that turns a raw pointer back into a reference (the complete set of lifetime extensions, enumerated "
            "from MIR): single cursor per method, strict direction, distinct front/back cursors, strict front<back guard dominating every yield, "
            "len() = distance between the cursors; R-ESI e1/e2/e4/e5 for the IterMut types.",
            "trusted": [TRUST_RUSTC, "indexmap: get_index_mut2(k) yields disjoint entries for distinct k"], "assumptions": []},
    "C10": {"rules": [c10], "explanation":
            "R-TORN: by parametricity a panic can start only at a call site that may run user code; the table-consistency automaton shows that at "
            "every such site on every feasible path of every table-writing body of a published store no growth/shrink/reset group is open, no "
            "slot index is duplicated (moving hole) and no raw write lacks its inverse-table counterpart.  Map calls are classified by where their "
            "user code runs: before the structural write (U;W: insert, entry, swap_remove_full, contains_key ...) or DURING it (W;U: retain*, "
            "clone_from, sort_by*, dedup_by*, extend, extract_if) - user code inside a map's own update is a violation, because the map does not restore "
            "its hash table when the callback unwinds and its later operations can then panic half-way (defect D8, repaired); R-DROPLESS (no "
            "destructor is relied on), R-UNSAFEKINDS + Copy tables (no double drop / leak by ownership), R-RESET for drain; R-DBGPURE (the debug "
            "build adds no writes and no user code).",
            "trusted": [TRUST_RUSTC, "indexmap stays MEMORY SAFE when a user callback unwinds (not: consistent - see D8)",
                        "indexmap's U;W calls finish their lookup before they mutate"],
            "assumptions": ["panics in user Drop impls are outside the property"]},
    "C11": {"rules": [c11], "explanation":
            "R-STRICT: exactly one priority comparison, normalised for operand order, strict and in the right direction between the offered "
            "priority and the stored one; absent item is pushed; true edge returns push(item, priority), false edge is effect-free and returns "
            "Some(priority); R-RESTORE for the push family.", "trusted": [TRUST_RUSTC], "assumptions": []},
    "C12": {"rules": [c12], "explanation": "R-READERS (get / get_mut / get_priority return the result of the keyed map lookup for the given key); "
            "R-KEYMUT, a who-may-call rule over the typed indexmap API: (k1) the set of functions that can obtain `&mut I` of a stored key equals "
            "the sanctioned accessor set, (k2) push/push_increase/push_decrease/change_priority(_by) reach neither such a function nor any "
            "entry-removing or reordering map write, (k3) the sift functions never write the map, (k4) lookups forward the borrowed key unmodified; R-EXTREME / R-UNITS for the mutable "
            "accessors (they address the element they claim to); R-CURSOR (iter_mut hands each element out once).",
            "trusted": [TRUST_RUSTC, "indexmap: insert/entry keep the stored key of a present entry; only MutableKeys/replace APIs yield &mut K"],
            "assumptions": ["interior mutability inside user item types is outside the property"]},
    "C13": {"rules": [c13], "explanation":
            "R-ESI for every `impl ExactSizeIterator`: size_hint defined (e1), size_hint and len agree (e2), every overridden "
            "Iterator/DoubleEndedIterator method of a delegating wrapper forwards to the same-named method of the same inner field (e3), "
            "self-made iterators override only next/next_back/size_hint/len, fusedness (e4); wiring of every Iterator impl of the crate; "
            "R-SELFMADE (a hand-written cursor iterator with an exact length moves its own cursor once on every yielding path under the guard "
            "front < back and moves nothing on a path that yields nothing; none on the reviewed tree, positive fixture).",
            "trusted": [TRUST_RUSTC, "indexmap iterators are exact, fused and double-ended-consistent"], "assumptions": []},
    "C14": {"rules": [c14], "explanation":
            "R-EQFOOT: Store::eq is exactly IndexMap's equality of the two `map` fields (footprint {map}), both queue eq impls delegate to it and "
            "define no `ne`; Clone for Store and both queues is derived or field-complete (a hand-written clone_from rewrites every field on every "
            "path: no early return on `==`, which is coarser than the representation); every field type owns its data; "
            "capacity-invisibility (no capacity() result reaches a branch or an argument: a clone, which does not keep the capacity, "
            "cannot behave differently from its source).",
            "trusted": [TRUST_RUSTC, "indexmap PartialEq is set equality of (key,value) pairs"], "assumptions": []},
    "C15": {"rules": [c15], "explanation":
            "serde configuration: R-SERDE (writer and reader use a sequence of (item, priority) pairs of the same arity and order; both queue kinds "
            "delegate to Store's impls; the reader writes no map entry but the pair just read), R-GROW on visit_seq (tables grow only for a new "
            "key; R-STORELIT: no Store assembled from separately computed parts), R-RESTORE on both Deserialize impls (heap_build), R-BOUNDS on the serde code (no panicking arithmetic / access: "
            "deserialization is total), R-EQFOOT (what 'equal to the original' means).",
            "trusted": [TRUST_RUSTC, "serde data model"], "assumptions": ["value equality of a round trip is not decided"]},
    "C16": {"rules": [c16], "explanation":
            "R-RESET: Store::drain and Store::clear empty heap, qp, size and map on every normal path; in drain the three table resets dominate the "
            "creation of the inner full-range map drain and the returned iterator wraps exactly it (nothing deferred to a destructor, so "
            "mem::forget is harmless); public drain/clear only delegate. R-DROPLESS; R-ESI wiring for Drain; R-UNSAFEKINDS (the crate itself never "
            "forgets ownership: no mem::forget / ManuallyDrop / leak / raw write, so what the map's clear and drain release is dropped).",
            "trusted": [TRUST_RUSTC, "indexmap::Drain empties the map even when leaked"], "assumptions": []},
    "C17": {"rules": [c17], "explanation":
            "R-CAPFWD: each capacity method of Store calls the same-named method of map, heap and qp with the unmodified argument on every "
            "successful path and does nothing else; try_ forms contain no panicking construct and propagate errors with `?`; queue methods "
            "delegate; capacity() is map.capacity(); with_capacity gives the capacity to all three containers; capacity-invisibility.",
            "trusted": [TRUST_RUSTC, "std/indexmap reserve contracts"], "assumptions": []},
    "C18": {"rules": [c18], "explanation":
            "R-NOHASH: no call site in any crate body resolves to a method of Hash/Hasher/BuildHasher, to IndexMap::hasher or to a raw-hash API; "
            "values of the hasher type flow only into constructors; no comparison bound on the hasher parameter. By parametricity the crate can "
            "then depend on the hasher only through the insertion-ordered map; capacity-invisibility (the capacity a hash table reports "
            "depends on how its hasher spread the keys); R-KEYMUT (crate code never rewrites a stored key in place: it would stay filed under "
            "the hash of its old value, so finding it again would depend on the hasher).",
            "trusted": [TRUST_RUSTC, "indexmap is hasher-independent as an insertion-ordered map given consistent Hash/Eq"], "assumptions": []},
}


def configs_for(pid, tier):
    if tier == "thorough":
        return ["std", "serde", "nostd"]
    if pid == "C15":
        return ["serde"]
    # the default build, the build with the optional serde code (a superset: visit_seq, (de)serialize impls), and the
    # no_std build (the cfg twins of the struct definitions and whatever else is gated on `not(feature = "std")`)
    return ["std", "serde", "nostd"]


def run(ctx, pid, tier):
    from .engine import CheckError
    spec = PROPS[pid]
    cfgs = configs_for(pid, tier)
    for cfg in cfgs:
        try:
            view = ctx.view(cfg)
        except CheckError as e:
            # the default build is the reference; an optional configuration that does not build is recorded, not fatal,
            # unless it is the only one this property can be decided in (C15) or nothing was analysed at all
            if cfg != "std" and pid != "C15" and "std" in cfgs:
                ctx.notes.append("configuration %s could not be analysed: %s" % (cfg, str(e)[:300]))
                ctx.undecided.append("configuration %s (does not build)" % cfg)
                continue
            raise
        for r in spec["rules"]:
            r(ctx, view)
    if tier == "thorough":
        from . import thorough
        thorough.run(ctx, pid)
