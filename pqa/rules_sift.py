"""R-SIFT / R-DUAL: decision skeleton of the sift functions.

For every sift function the *decision skeleton* is extracted from MIR with flow-sensitive value provenance:
the set of branch conditions (canonical, operand-order normalised, alpha-invariant) each with the effects
owned by its true and its false edge (crate calls with canonical arguments, raw table writes, whether the
enclosing loop continues or is left).  R-DUAL requires the min/max siblings of the double queue to have
equal skeletons after exchanging polarity; R-SIFT compares every sift function with the reviewed skeleton in
rules/sift_spec.json (generated once from the pinned tree by bin/gen_sift_spec.py and read by hand)."""
import json
import os
import re

from .core import walk, strip, component
from .flowvp import FlowVP, canon
from .rules_decl import PQ, DPQ, QNAME

HERE = os.path.dirname(os.path.dirname(os.path.abspath(__file__)))
SPEC = os.path.join(HERE, "rules", "sift_spec.json")

SIFT_FNS = {
    PQ: ["heapify", "bubble_up", "up_heapify", "heap_build"],
    DPQ: ["heapify", "heapify_min", "heapify_max", "bubble_up", "bubble_up_min", "bubble_up_max", "up_heapify", "heap_build", "find_max", "find_min"],
}
DUAL_PAIRS = [("heapify_min", "heapify_max"), ("bubble_up_min", "bubble_up_max")]


class Skel:
    def __init__(self, view):
        self.view = view
        self.fvp = FlowVP(view)
        self._cb = {}

    def closure_body(self, key):
        if key in self._cb:
            return self._cb[key]
        self._cb[key] = "…"
        f = self.view.prog.fn(key)
        if f is None:
            return key
        r = self.view.vp.local(f, 0)
        s = canon(r, self.closure_body)
        # drop the closure's own key from nested references so that siblings compare equal
        self._cb[key] = s
        return s

    def c(self, t):
        from . import flowvp
        view = self.view

        def is_prio(site):
            f = view.prog.fn(site[0])
            if f is None or f.term(site[1])["k"] != "call":
                return False
            return view.fx.call_info(f, site[1]).cmp

        flowvp.PRIO_CMP_SITES = is_prio
        try:
            return canon(t, self.closure_body)
        finally:
            flowvp.PRIO_CMP_SITES = None

    def skeleton(self, f):
        """-> sorted list of fact strings"""
        fvp = self.fvp
        cfg = f.cfg
        facts = set()
        # real branches only: a switch on a literal (debug_assert!, cfg!) has a single live successor
        switches = [b for b in sorted(cfg.reach) if f.term(b)["k"] == "switch" and len(cfg.succ[b]) > 1]
        # blocks owned by an edge: dominated by the edge target (when the target has a single predecessor),
        # minus blocks dominated by the targets of nested switches
        def region(target, src):
            if len([p for p in cfg.pred[target] if p in cfg.reach]) != 1:
                return {target} if False else set()
            reg = {b for b in cfg.reach if cfg.dominates(target, b)}
            return reg

        def direct_effects(reg):
            nested = set()
            for b in reg:
                if f.term(b)["k"] == "switch" and len(cfg.succ[b]) > 1:
                    for s in cfg.succ[b]:
                        if len([p for p in cfg.pred[s] if p in cfg.reach]) == 1:
                            nested |= {x for x in reg if cfg.dominates(s, x)}
            own = reg - nested
            eff = []
            for b in sorted(own):
                eff.extend(self.block_effects(f, b))
            return sorted(set(eff))

        def flags(target, src):
            # does this edge allow the innermost loop of src to continue?
            loops = cfg.in_loop(src)
            fl = []
            if loops:
                lp = min(loops, key=lambda l: len(l["body"]))
                reach = cfg.reachable_from(target) | {target}
                back_srcs = {a for a, h in lp["backedges"]}
                cont = any(b in reach and b in lp["body"] for b in back_srcs) and target in lp["body"]
                fl.append("continues" if cont else "leaves-loop")
            return fl

        for sb in switches:
            t = f.term(sb)
            d = fvp.switch_discr(f, sb)
            cond = self.c(d)
            if cond in ("true", "false") or re.fullmatch(r"mu\{(true|false|\|)+\}", cond):
                continue  # drop flags
            if is_drop_flag(f, t):
                continue
            edges = []
            targets = [(v, tb) for v, tb in t["targets"]] + [("else", t["otherwise"])]
            for v, tb in targets:
                if f.blocks[tb]["term"]["k"] == "unreachable":
                    continue
                reg = region(tb, sb)
                eff = direct_effects(reg) if reg else []
                edges.append("%s=>[%s]%s" % (v, "; ".join(eff), "".join("<%s>" % x for x in flags(tb, sb))))
            facts.add("IF %s :: %s" % (cond, " || ".join(edges)))
        # unconditional effects: blocks not dominated by any single-pred switch target
        owned = set()
        for sb in switches:
            for s in cfg.succ[sb]:
                if len([p for p in cfg.pred[s] if p in cfg.reach]) == 1:
                    owned |= {x for x in cfg.reach if cfg.dominates(s, x)}
        top = []
        for b in sorted(cfg.reach - owned):
            top.extend(self.block_effects(f, b))
        for e in sorted(set(top)):
            facts.add("ALWAYS " + e)
        # loops: induction structure
        for lp in cfg.loops:
            facts.add("LOOP header-cond-block bb? size=%d" % 0)
        facts = {x for x in facts if not x.startswith("LOOP")}
        r = fvp.local(f, 0, cfg.returns[0], 10 ** 6) if cfg.returns else None
        if r is not None and f.j.get("output", {}).get("s") not in ("()", None):
            facts.add("RETURNS " + self.c(r))
        return sorted(facts)

    def block_effects(self, f, b):
        """effects in block b: crate calls (canonical args), selections with user comparisons, raw table writes,
        assignments to loop-carried position variables are captured through later terms"""
        view = self.view
        fvp = self.fvp
        out = []
        blk = f.blocks[b]
        for si, s in enumerate(blk["stmts"]):
            if s["k"] != "assign" or not s["place"]["proj"]:
                continue
            tgt = fvp.place(f, s["place"], b, si)
            from .fx import classify_write_target
            w = classify_write_target(tgt)
            if w and w[0] in ("heap", "qp", "size"):
                comp, how, idx = w
                val = fvp.rvalue(f, s["rv"], b, si)
                out.append("WRITE %s[%s] := %s" % (comp, self.c(idx) if idx else "*", self.c(val)))
        t = blk["term"]
        if t["k"] == "call" and "func" in t:
            ci = view.fx.call_info(f, b)
            name = ci.local_callee or ci.key
            short = name.split("::")[-1]
            interesting = False
            if ci.local_callee and short not in ("len", "is_empty", "left", "right", "parent", "level", "log2_fast", "get_priority_from_position"):
                interesting = True
            if ci.cmp and not ci.local_callee:
                # selections (min_by_key ...) are effects; plain comparisons show up as conditions
                if short in ("min_by_key", "max_by_key", "min_by", "max_by", "min", "max", "cmp", "partial_cmp", "sort_by", "sort_by_key"):
                    interesting = True
            if short in ("swap", "push", "swap_remove", "clear", "truncate", "pop") and not ci.local_callee:
                args0 = view.fx.args_vp(ci)
                if args0 and component(args0[0]):
                    interesting = True
            if interesting:
                args = fvp.call_args(f, b)
                out.append("CALL %s(%s)" % (name, ", ".join(self.c(a) for a in args[1:] if True)))
        return out


def is_drop_flag(f, t):
    d = t["discr"]
    if d["k"] in ("copy", "move") and not d["place"]["proj"]:
        l = d["place"]["local"]
        ds = f.defs.get(l, [])
        if ds and all(x[0] == "stmt" and x[3]["rv"]["k"] == "use" and x[3]["rv"]["op"]["k"] == "const" for x in ds):
            return True
    return False


POLARITY = [("min_by_key", "max_by_key"), ("heapify_min", "heapify_max"), ("bubble_up_min", "bubble_up_max"),
            ("::min(", "::max("), ("min_by(", "max_by(")]


def dualise(fact):
    """exchange polarity: lt(a,b) <-> lt(b,a) for *priority* comparisons, min <-> max selections, sibling names"""
    s = fact
    # swap operands of priority comparisons (canonical form is always lt/le): lt(A,B) -> lt(B,A)
    s = flip_priority_cmps(s)
    for a, b in POLARITY:
        s = s.replace(a, "\0").replace(b, a).replace("\0", b)
    return s


def flip_priority_cmps(s):
    out = []
    i = 0
    while i < len(s):
        m = re.compile(r"(plt|ple)\(").match(s, i)
        if m and (i == 0 or not (s[i - 1].isalnum() or s[i - 1] == "_")):
            j = m.end()
            depth = 1
            k = j
            comma = None
            while k < len(s) and depth:
                ch = s[k]
                if ch in "([{":
                    depth += 1
                elif ch in ")]}":
                    depth -= 1
                elif ch == "," and depth == 1 and comma is None:
                    comma = k
                k += 1
            if comma is not None:
                a = s[j:comma]
                b = s[comma + 1:k - 1]
                out.append("%s(%s,%s)" % (m.group(1), flip_priority_cmps(b), flip_priority_cmps(a)))
                i = k
                continue
        out.append(s[i])
        i += 1
    return "".join(out)


def _subterms(s):
    """balanced `name(...)` / `mu{...}` substrings of s"""
    out = []
    stack = []
    starts = {}
    i = 0
    n = len(s)
    # identifier start positions
    id_start = None
    for i, ch in enumerate(s):
        if ch.isalnum() or ch in "_:<>[]T":
            if id_start is None:
                id_start = i
        else:
            if ch in "({":
                stack.append((id_start if id_start is not None else i, i))
            elif ch in ")}":
                if stack:
                    st, op = stack.pop()
                    out.append(s[st:i + 1])
            id_start = None
    return out


def abbreviate(strings, rounds=8, minlen=45):
    """replace repeated long sub-terms by short aliases to make skeleton diffs readable"""
    strings = list(strings)
    legend = []
    for r in range(rounds):
        counts = {}
        for s in strings:
            for t in set(_subterms(s)):
                if len(t) >= minlen and "\u2039" not in t[:1]:
                    counts[t] = counts.get(t, 0) + s.count(t)
        best = None
        for t, c in counts.items():
            if c >= 2:
                score = (len(t) - 4) * (c - 1)
                if best is None or score > best[0]:
                    best = (score, t)
        if not best:
            break
        alias = "\u2039%s\u203a" % "ABCDEFGH"[r]
        legend.append("%s = %s" % (alias, best[1]))
        strings = [s.replace(best[1], alias) for s in strings]
    return strings, legend


def load_spec():
    if not os.path.exists(SPEC):
        return None
    return json.load(open(SPEC))


def r_sift(ctx, view, Q):
    prog = view.prog
    ctx.cur = view
    sk = Skel(view)
    spec = load_spec()
    ctx.anchor("rules/sift_spec.json", spec is not None)
    skels = {}
    for name in SIFT_FNS[Q]:
        f = prog.fn("%s::%s" % (Q, name))
        ctx.anchor("%s::%s" % (Q, name), f is not None)
        facts = []
        for g in [f]:
            facts = sk.skeleton(g)
        skels[name] = facts
        want = spec.get("%s::%s" % (Q, name))
        ctx.anchor("spec for %s::%s" % (Q, name), want is not None)
        missing = [x for x in want if x not in facts]
        extra = [x for x in facts if x not in want]
        ok = not missing and not extra
        msg = "decision skeleton (%d facts) equals the reviewed one" % len(facts)
        if not ok:
            ab, legend = abbreviate(missing + extra)
            msg = ("decision skeleton deviates from the reviewed sift algorithm.  REVIEWED BUT ABSENT: %s  ||  PRESENT BUT NOT REVIEWED: %s  ||  where %s" % (
                " ;; ".join(ab[:len(missing)][:3]) or "-", " ;; ".join(ab[len(missing):][:3]) or "-", " ; ".join(legend)))[:2400]
        ctx.ob("R-SIFT", "%s::%s" % (QNAME[Q], name), ok, f.loc(), msg, missing=missing, extra=extra)
    if Q == DPQ:
        for a, b in DUAL_PAIRS:
            fa, fb = skels[a], skels[b]
            da = sorted(dualise(x) for x in fa)
            ok = da == sorted(fb)
            diff_a = [x for x in da if x not in fb]
            diff_b = [x for x in fb if x not in da]
            msg = "the two siblings are polarity duals (%d facts each)" % len(fa)
            if not ok:
                ab, legend = abbreviate(diff_a + diff_b)
                msg = ("siblings are not polarity duals.  ONLY IN dual(%s): %s  ||  ONLY IN %s: %s  ||  where %s" % (
                    a, " ;; ".join(ab[:len(diff_a)][:2]) or "-", b, " ;; ".join(ab[len(diff_a):][:2]) or "-", " ; ".join(legend)))[:2400]
            ctx.ob("R-DUAL", "DoublePriorityQueue::%s~%s" % (a, b), ok, prog.fn("%s::%s" % (Q, b)).loc(), msg)
        # the two mixed arms of bubble_up must be duals of each other: checked through the spec of bubble_up
    return skels
