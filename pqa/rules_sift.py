"""R-SIFT / R-DUAL: decision skeleton of the sift functions.

For every sift function the *decision skeleton* is extracted from MIR with flow-sensitive value provenance:
the set of branch conditions (canonical, operand-order normalised, alpha-invariant) each with the effects
owned by its true and its false edge (crate calls with canonical arguments, raw table writes, whether the
enclosing loop continues or is left).  R-DUAL requires the min/max siblings of the double queue to have
equal skeletons after exchanging polarity; R-SIFT compares every sift function with the reviewed skeleton in
rules/sift_spec.json (generated once from the pinned tree by bin/gen_sift_spec.py and read by hand)."""
import json
import os
import re

from .core import walk, strip, component
from .flowvp import FlowVP, canon
from .rules_decl import PQ, DPQ, QNAME

HERE = os.path.dirname(os.path.dirname(os.path.abspath(__file__)))
SPEC = os.path.join(HERE, "rules", "sift_spec.json")

SIFT_FNS = {
    PQ: ["heapify", "bubble_up", "up_heapify", "heap_build"],
    # find_min / find_max are decided semantically (R-EXTREME: table of returned positions by length), not by skeleton
    DPQ: ["heapify", "heapify_min", "heapify_max", "bubble_up", "bubble_up_min", "bubble_up_max", "up_heapify", "heap_build"],
}
DUAL_PAIRS = [("heapify_min", "heapify_max"), ("bubble_up_min", "bubble_up_max")]
# the index arithmetic of the implicit tree (free functions of the two queue modules)
TREE_FNS = ["left", "right", "parent", "log2_fast"]
TREE_FNS_DPQ = ["level"]


def tree_fn_keys(Q):
    mod = Q.rsplit("::", 1)[0]
    return ["%s::%s" % (mod, n) for n in TREE_FNS + (TREE_FNS_DPQ if Q == DPQ else [])]


class Skel:
    def __init__(self, view):
        self.view = view
        self.fvp = FlowVP(view)
        self.ofvp = self.fvp          # bodies as extracted
        self.nfvp = FlowVP(view)      # bodies after variable normalisation (pqa/normalise.py)
        self._norm = {}
        self._in_norm = 0
        self.norm_reports = {}
        self._cb = {}

    def norm(self, f):
        """the variable-normalised body of f (webs split, copies coalesced, self copies dropped)"""
        if getattr(f, "normalised_from", None) is not None:
            return f
        if f.key not in self._norm:
            from .normalise import normalise
            g, rep = normalise(self.view.prog, f)
            self._norm[f.key] = g
            if rep:
                self.norm_reports[f.key] = rep
        return self._norm[f.key]

    def closure_body(self, key):
        if key in self._cb:
            return self._cb[key]
        self._cb[key] = "…"
        f = self.view.prog.fn(key)
        if f is None:
            return key
        r = self.view.vp.local(f, 0)
        s = canon(r, self.closure_body)
        # drop the closure's own key from nested references so that siblings compare equal
        self._cb[key] = s
        return s

    def c(self, t):
        from . import flowvp
        view = self.view

        def is_prio(site):
            f = (self._norm.get(site[0]) if self._in_norm else None) or view.prog.fn(site[0])
            if f is None or site[1] >= len(f.blocks) or f.term(site[1])["k"] != "call":
                return False
            return view.fx.call_info(f, site[1]).cmp

        flowvp.PRIO_CMP_SITES = is_prio
        prev = flowvp.GENS
        flowvp.GENS = self.gens_of_mu
        try:
            return canon(t, self.closure_body)
        finally:
            flowvp.PRIO_CMP_SITES = None
            flowvp.GENS = prev

    def gens_of_mu(self, mu):
        """generator shapes of the loop-carried variable(s) behind a mu term"""
        locs = set()
        fnkey = None
        for a in mu[1]:
            if a[0] == "defat" and len(a) > 3:
                fnkey = a[1][0]
                locs.add(a[3][0])
            elif a[0] == "param":
                fnkey = a[1]
                locs.add(a[2])
        if not locs or fnkey is None:
            return None
        f = self._norm.get(fnkey) if self._in_norm else None
        if f is None:
            f = self.view.prog.fn(fnkey)
        if f is None:
            return None
        out = set()
        for l in locs:
            out |= self.gens(f, l)
        return out

    def gens(self, f, l, seen=None):
        key = (f.key, l, self._in_norm)
        if not hasattr(self, "_gens"):
            self._gens = {}
        if key in self._gens:
            return self._gens[key]
        seen = seen or set()
        if l in seen:
            return set()
        seen = seen | {l}
        r = self.fvp.reach(f)
        out = set()
        if f.locals[l]["arg"]:
            out.add("P%d" % l)
        live = self.live_defs(f)
        for did in r.defs_of(l):
            if did not in live:
                continue
            d = r.defs[did]
            # plain copy of another loop-carried variable: close over it
            src = None
            if d[0] == "stmt" and d[3]["rv"]["k"] == "use":
                o = d[3]["rv"]["op"]
                if o["k"] in ("copy", "move") and not o["place"]["proj"]:
                    src = o["place"]["local"]
            hops = 0
            while src is not None and src not in r.multi and hops < 6:
                ds = f.defs.get(src, [])
                nxt = None
                if len(ds) == 1 and ds[0][0] == "stmt" and ds[0][3]["rv"]["k"] == "use":
                    o = ds[0][3]["rv"]["op"]
                    if o["k"] in ("copy", "move") and not o["place"]["proj"]:
                        nxt = o["place"]["local"]
                if nxt is None:
                    break
                src = nxt
                hops += 1
            if src is not None and src in r.multi:
                nlive = sum(1 for d2 in r.defs_of(src) if d2 in live) + (1 if f.locals[src]["arg"] else 0)
                if nlive <= 1:
                    out |= self.gens(f, src, seen)   # effectively a temporary: look through it
                else:
                    out.add("μ")                      # a copy of ANOTHER loop-carried variable: keep the two apart
                continue
            v = self.fvp.def_term(f, d, ())
            from . import flowvp
            flowvp._MU_DEPTH[0] += 1   # render nested loop-carried values as μ
            try:
                out.add(canon(v, self.closure_body))
            finally:
                flowvp._MU_DEPTH[0] -= 1
        if len(seen) == 1:
            self._gens[key] = out
        return out

    def live_defs(self, f):
        """definitions of multiply-defined locals that reach at least one use along a feasible path"""
        if not hasattr(self, "_live"):
            self._live = {}
        if (f.key, self._in_norm) in self._live:
            return self._live[(f.key, self._in_norm)]
        r = self.fvp.reach(f)
        live = set()

        def use(l, bb, pos):
            if l in r.multi:
                live.update(r.at(l, bb, pos))

        def place_uses(pl, bb, pos):
            use(pl["local"], bb, pos)
            for e in pl["proj"]:
                if e["k"] == "index":
                    use(e["local"], bb, pos)

        def op_uses(o, bb, pos):
            if o["k"] in ("copy", "move"):
                place_uses(o["place"], bb, pos)

        for bb in sorted(f.cfg.reach):
            b = f.blocks[bb]
            for si, st in enumerate(b["stmts"]):
                if st["k"] != "assign":
                    continue
                rv = st["rv"]
                for k in ("op", "a", "b"):
                    if isinstance(rv.get(k), dict):
                        op_uses(rv[k], bb, si)
                if "place" in rv:
                    place_uses(rv["place"], bb, si)
                for o in rv.get("ops", []):
                    op_uses(o, bb, si)
                if st["place"]["proj"]:
                    place_uses(st["place"], bb, si)
            t = b["term"]
            if t["k"] == "call":
                for a in t["args"]:
                    op_uses(a, bb, 10 ** 6)
            elif t["k"] == "switch":
                op_uses(t["discr"], bb, 10 ** 6)
            elif t["k"] == "assert":
                op_uses(t["cond"], bb, 10 ** 6)
            elif t["k"] == "return" and 0 in r.multi:
                live.update(r.at(0, bb, 10 ** 6))
        self._live[(f.key, self._in_norm)] = live
        return live

    # ---- literals: normalised branch conditions -------------------------------------------------
    def literals_of_edge(self, f, sb, target):
        """the condition(s) known to hold when the switch at `sb` takes the edge to `target`, as (text, polarity) pairs;
        all order comparisons are rendered as `lt`, equalities as `eq`, emptiness as eq(LEN,0), Option tests as some(x)"""
        t = f.term(sb)
        d = self.fvp.switch_discr(f, sb)
        vals = [v for v, tb in t["targets"] if tb == target]
        is_else = t["otherwise"] == target
        all_vals = [v for v, _ in t["targets"]]
        return self.literals(d, vals, is_else, all_vals)

    def literals(self, d, vals, is_else, all_vals):
        from .core import strip as _strip
        d = _strip(d)
        while d[0] == "defat":
            d = _strip(d[2])
        # truth of a boolean discriminant on this edge
        truth = None
        if is_else and 0 in all_vals and not vals:
            truth = True
        elif vals == [0]:
            truth = False
        elif vals and 0 not in vals and not is_else:
            truth = True
        if d[0] == "discr":
            x = self.c(d[1])
            names = dict(d[2]) if len(d) > 2 and d[2] else {}
            if names:
                from .core import PRESENT_VARIANTS, ABSENT_VARIANTS
                here = {names[v] for v in vals if v in names} | ({n for v, n in names.items() if v not in all_vals} if is_else else set())
                if here and here <= PRESENT_VARIANTS:
                    return [("some(%s)" % x, True)]
                if here and here <= ABSENT_VARIANTS:
                    return [("some(%s)" % x, False)]
                if set(names.values()) == {"Less", "Equal", "Greater"} and here:
                    # `match a.cmp(b)`: the same facts as the comparison operators give
                    y = _strip(d[1])
                    while y[0] == "defat":
                        y = _strip(y[2])
                    if y[0] == "call" and y[1].split("::")[-1] in ("cmp", "partial_cmp") and len(y[2]) == 2:
                        a, b = self.c(y[2][0]), self.c(y[2][1])
                        pre = "p"
                        site = y[3] if len(y) > 3 else None
                        if site:
                            g = self.view.prog.fn(site[0])
                            pre = "p" if (g is not None and g.term(site[1])["k"] == "call" and self.view.fx.call_info(g, site[1]).cmp) else ""
                        lt_ab, lt_ba = "%slt(%s,%s)" % (pre, a, b), "%slt(%s,%s)" % (pre, b, a)
                        table = {frozenset(["Less"]): [(lt_ab, True)], frozenset(["Greater"]): [(lt_ba, True)],
                                 frozenset(["Less", "Equal"]): [(lt_ba, False)], frozenset(["Greater", "Equal"]): [(lt_ab, False)],
                                 frozenset(["Equal"]): [(lt_ab, False), (lt_ba, False)], frozenset(["Less", "Greater"]): [("Eq(%s)" % ",".join(sorted((a, b))), False)]}
                        if frozenset(here) in table:
                            return table[frozenset(here)]
                    return [("%s is %s" % (x, "|".join(sorted(here))), True)]
            if vals == [1] or (is_else and all_vals == [0]):
                return [("some(%s)" % x, True)]
            if vals == [0] or (is_else and all_vals == [1]):
                return [("some(%s)" % x, False)]
            return [("discr(%s) in %s%s" % (x, vals, "+else" if is_else else ""), True)]
        txt = self.c(d)
        if txt == "LEN":
            # integer match on the length
            if vals and not is_else:
                return [int_literal("Eq", "LEN", vals[0], True)]
            return [int_literal("Eq", "LEN", v, False) for v in sorted(all_vals)]
        if truth is None:
            return [("%s in %s%s" % (txt, vals, "+else" if is_else else ""), True)]
        return [self.bool_literal(d, truth)]

    def bool_literal(self, d, truth):
        from .core import strip as _strip
        d = _strip(d)
        while d[0] == "defat":
            d = _strip(d[2])
        if d[0] == "unop" and d[1] == "Not":
            return self.bool_literal(d[2], not truth)
        return normalise_bool(self.c(d), truth)

    def dominating_literals(self, f, bb):
        cfg = f.cfg
        lits = []
        for sb in sorted(cfg.reach):
            if f.term(sb)["k"] != "switch" or len(cfg.succ[sb]) < 2 or sb == bb or not cfg.dominates(sb, bb):
                continue
            if is_drop_flag(f, f.term(sb)):
                continue
            succs = cfg.succ[sb]
            taken = [s2 for s2 in succs if cfg.dominates(s2, bb) and len([p for p in cfg.pred[s2] if p in cfg.reach]) == 1]
            if len(taken) != 1:
                # early-exit idiom: only one successor can reach bb at all
                reach = [s2 for s2 in succs if s2 == bb or bb in cfg.reachable_from(s2)]
                if len(reach) != 1:
                    continue
                taken = reach
            for l in self.literals_of_edge(f, sb, taken[0]):
                if l[0] not in ("true", "false"):
                    lits.append(l)
        lits = set(lits)
        # a checked element access that succeeded (`if let Some(slot) = table.get_mut(i)`) decides nothing about the
        # algorithm: it is the checked spelling of `table[i]`; only its failing edge is a decision
        lits = {l for l in lits if not (l[1] and CHECKED_ACCESS_RE.match(l[0]))}
        # the body of a continuation closure (`lookup.map(|hit| ..)`) runs exactly when the receiver is Some
        imp = self.implicit_literal(f)
        if imp is not None:
            lits.add(imp)
        # a positive `LEN == k` makes every `LEN != j` redundant (if-chains accumulate them, a match does not)
        lits = simplify_int_literals(lits)
        lits = resolve_bool_equalities(lits)
        return sorted(lits)

    def implicit_literal(self, f):
        if not f.is_closure:
            return None
        if not hasattr(self, "_imp"):
            self._imp = {}
        if f.key in self._imp:
            return self._imp[f.key]
        res = None
        from .core import OPTION_PAYLOAD_COMBINATORS
        use = self.view.vp.closure_use(f.key)
        if use is not None:
            pf, bb, t, argpos = use
            if "func" in t and t["func"]["key"] in OPTION_PAYLOAD_COMBINATORS and argpos >= 1:
                recv = self.ofvp.operand(pf, t["args"][0], bb, 10 ** 6)
                was, self._in_norm = self._in_norm, 0
                try:
                    res = ("some(%s)" % self.c(recv), True)
                finally:
                    self._in_norm = was
        self._imp[f.key] = res
        return res

    def family_skeleton(self, key):
        """union of the skeletons of a function and the closures defined in it (closure facts carry their implicit
        `some(receiver)` literal), so that `lookup.map(|hit| ..)` and `let hit = lookup?; ..` read the same"""
        facts = set()
        for g in self.view.prog.family(key):
            for x in self.skeleton(g):
                if g.is_closure and x.startswith(("RETURNS ", "RETURN ")):
                    continue
                facts.add(x)
        # the root's own RETURN of the combinator call is style-specific: keep only effect / SET / LOOP facts and the
        # root's RETURNS when it is not a combinator
        return sorted(x for x in facts if not (x.startswith(("RETURNS ", "RETURN ")) and ("::map(" in x or "::and_then(" in x or "from_residual" in x or "Option::Some(" in x or "Option::None" in x)))

    def skeleton(self, f):
        """-> sorted list of fact strings: every effect with the set of branch literals that guard it, the conditions
        under which each loop continues, and the returned value; read from the variable-normalised body"""
        g = self.norm(f)
        self.fvp = self.nfvp
        self._in_norm += 1
        try:
            return self._skeleton(g)
        finally:
            self._in_norm -= 1
            if not self._in_norm:
                self.fvp = self.ofvp

    def _skeleton(self, f):
        cfg = f.cfg
        facts = set()

        def when1(lits):
            return " & ".join(sorted("%s%s" % ("" if pol else "!", txt) for txt, pol in lits)) or "always"

        def whens(lits):
            """one guard string per disjunct: an undecided `a == b` on two conditions is (a & b) | (!a & !b)"""
            return [when1(alt) for alt in expand_bool_equalities(lits)]

        for b in sorted(cfg.reach):
            effs = self.block_effects(f, b)
            if not effs:
                continue
            for w in whens(self.dominating_literals(f, b)):
                for e in effs:
                    facts.add("%s  WHEN %s" % (e, w))
        # assignments to multiply-defined user variables (which candidate is selected under which comparison outcome)
        r = self.fvp.reach(f)
        for l in sorted(r.multi):
            if l == 0 or not f.locals[l]["name"]:
                continue
            sig = "M{%s}" % "|".join(sorted(x for x in self.gens(f, l) if x != "μ") or ["μ"])
            live = self.live_defs(f)
            nlive = sum(1 for did in r.defs_of(l) if did in live) + (1 if f.locals[l]["arg"] else 0)
            if nlive < 2:
                continue   # effectively single-assignment (e.g. a dummy initialiser that no use can see)
            for did in sorted(r.defs_of(l), key=str):
                if did not in live:
                    continue
                d = r.defs[did]
                v = self.fvp.def_term(f, d, ())
                for w in whens(self.dominating_literals(f, d[1])):
                    facts.add("SET %s := %s  WHEN %s" % (sig, self.c(v), w))
        for lp in cfg.loops:
            for (a, h) in lp["backedges"]:
                for w in whens(self.dominating_literals(f, a)):
                    facts.add("LOOP-CONTINUES  WHEN %s" % w)
        for rb in cfg.returns:
            pass
        r = self.fvp.local(f, 0, cfg.returns[0], 10 ** 6) if cfg.returns else None
        if r is not None and f.j.get("output", {}).get("s") not in ("()", None):
            rs = self.c(r)
            facts.add("RETURNS " + rs)
            # which value is returned under which condition (find_max's arm table and the like)
            for d in f.defs.get(0, []):
                if d[0] == "stmt":
                    v = self.fvp.rvalue(f, d[3]["rv"], d[1], d[2])
                    for w in whens(self.dominating_literals(f, d[1])):
                        facts.add("RETURN %s  WHEN %s" % (self.c(v), w))
                elif d[0] == "call":
                    for w in whens(self.dominating_literals(f, d[1])):
                        facts.add("RETURN %s  WHEN %s" % (self.c(self.fvp.call_term(f, d[1])), w))
        return sorted(facts)

    def block_effects(self, f, b):
        """effects in block b: crate calls (canonical args), selections with user comparisons, raw table writes,
        assignments to loop-carried position variables are captured through later terms"""
        view = self.view
        fvp = self.fvp
        out = []
        blk = f.blocks[b]
        for si, s in enumerate(blk["stmts"]):
            if s["k"] != "assign" or not s["place"]["proj"]:
                continue
            tgt = fvp.place(f, s["place"], b, si)
            from .fx import classify_write_target
            w = classify_write_target(tgt)
            if w and w[0] in ("heap", "qp", "size"):
                comp, how, idx = w
                val = fvp.rvalue(f, s["rv"], b, si)
                out.append("WRITE %s[%s] := %s" % (comp, self.c(idx) if idx else "*", self.c(val)))
        t = blk["term"]
        if t["k"] == "call" and "func" in t:
            ci = view.fx.call_info(f, b)
            name = ci.local_callee or ci.key
            short = name.split("::")[-1]
            interesting = False
            if ci.local_callee and short not in ("len", "is_empty", "left", "right", "parent", "level", "log2_fast", "get_priority_from_position"):
                interesting = True
                lc = view.prog.fn(ci.local_callee)
                if short in ("eq", "ne") and lc is not None and lc.j.get("auto_derived"):
                    interesting = False   # `a == b` on Position / Index (derived): a condition, like `a != b`
            if ci.cmp and not ci.local_callee:
                # selections (min_by_key ...) are effects; plain comparisons show up as conditions
                if short in ("min_by_key", "max_by_key", "min_by", "max_by", "min", "max", "cmp", "partial_cmp", "sort_by", "sort_by_key"):
                    interesting = True
            if short in ("swap", "push", "swap_remove", "clear", "truncate", "pop") and not ci.local_callee:
                args0 = view.fx.args_vp(ci)
                if args0 and component(args0[0]):
                    interesting = True
            if interesting:
                args = fvp.call_args(f, b)
                out.append("CALL %s(%s)" % (name, ", ".join(self.c(a) for a in args[1:] if True)))
        return out


CMP_RE = re.compile(r"^(p?)(lt|le)\((.*)\)$")


def split_top(argstr):
    depth = 0
    for i, ch in enumerate(argstr):
        if ch in "([{":
            depth += 1
        elif ch in ")]}":
            depth -= 1
        elif ch == "," and depth == 0:
            return argstr[:i], argstr[i + 1:]
    return argstr, ""


INT_RE = re.compile(r"^(\d+)_usize$")


def int_literal(op, a, k, truth):
    """normal forms for comparisons of an unsigned quantity `a` with a literal k: GE(a,k) / LE(a,k) / EQ(a,k) / NE(a,k)"""
    if op == "Eq":
        if truth:
            return ("LE(%s,0)" % a, True) if k == 0 else ("EQ(%s,%d)" % (a, k), True)
        return ("GE(%s,1)" % a, True) if k == 0 else ("EQ(%s,%d)" % (a, k), False)
    if op == "LtAK":      # a < k
        if truth:
            return ("LE(%s,%d)" % (a, k - 1), True) if k >= 1 else ("false", True)
        return ("GE(%s,%d)" % (a, k), True)
    if op == "LtKA":      # k < a
        if truth:
            return ("GE(%s,%d)" % (a, k + 1), True)
        return ("LE(%s,%d)" % (a, k), True)
    return ("%s(%s,%d)" % (op, a, k), truth)


def simplify_int_literals(lits):
    """drop literals implied by others on the same quantity: EQ(a,k) implies every !EQ(a,j), GE(a,j<=k), LE(a,j>=k);
    keep only the strongest GE / LE"""
    by = {}
    rest = set()
    pat = re.compile(r"^(GE|LE|EQ)\((.*),(\d+)\)$")
    for txt, pol in lits:
        m = pat.match(txt)
        if not m:
            rest.add((txt, pol))
            continue
        by.setdefault(m.group(2), []).append((m.group(1), int(m.group(3)), pol))
    out = set(rest)
    for a, items in by.items():
        eqs = [k for op, k, pol in items if op == "EQ" and pol]
        if eqs:
            out.add(("EQ(%s,%d)" % (a, eqs[0]), True))
            continue
        ges = [k for op, k, pol in items if op == "GE"]
        les = [k for op, k, pol in items if op == "LE"]
        lo = max(ges) if ges else None
        hi = min(les) if les else None
        nes = sorted(k for op, k, pol in items if op == "EQ" and not pol)
        # x >= lo and x != lo  =>  x >= lo+1 (repeat)
        changed = True
        while changed and lo is not None:
            changed = False
            if lo in nes:
                nes.remove(lo)
                lo += 1
                changed = True
        if lo is None and nes and nes[0] == 0:
            pass
        if lo is not None and hi is not None and lo == hi:
            out.add(("EQ(%s,%d)" % (a, lo), True))
            continue
        if lo is not None:
            out.add(("GE(%s,%d)" % (a, lo), True))
        if hi is not None:
            out.add(("LE(%s,%d)" % (a, hi), True))
        for k in nes:
            if (lo is None or k >= lo) and (hi is None or k <= hi):
                out.add(("EQ(%s,%d)" % (a, k), False))
    return out


def _flip(lit):
    """the negation of a literal, integer bounds kept in their positive normal form"""
    txt, pol = lit
    m = re.match(r"^(LE|GE)\((.*),(\d+)\)$", txt)
    if m and pol:
        k = int(m.group(3))
        if m.group(1) == "LE":
            return ("GE(%s,%d)" % (m.group(2), k + 1), True)
        if k >= 1:
            return ("LE(%s,%d)" % (m.group(2), k - 1), True)
    return (txt, not pol)


def _truth_in(lits, txt, pol):
    """is the literal (txt, pol) decided by the set?  True / False / None"""
    for t, p in lits:
        if t == txt:
            return p == pol
    m = re.match(r"^(LE|GE)\((.*),(\d+)\)$", txt)
    if m:
        k = int(m.group(3))
        comp = "GE(%s,%d)" % (m.group(2), k + 1) if m.group(1) == "LE" else ("LE(%s,%d)" % (m.group(2), k - 1) if k >= 1 else None)
        if comp:
            for t, p in lits:
                if t == comp:
                    return (not p) == pol
    return None


def resolve_bool_equalities(lits):
    """`a == b` on two conditions (`if on_min_level == above_parent`), with one side decided by another literal of the same
    conjunction, says what the other side is: the literal is replaced by that"""
    lits = set(lits)
    changed = True
    while changed:
        changed = False
        for (txt, pol) in sorted(lits):
            m = re.match(r"^Eq\((.*)\)$", txt)
            if not m:
                continue
            a, b = split_top(m.group(1))
            if not a or not b:
                continue
            na, nb = normalise_bool(a, True), normalise_bool(b, True)
            if na[0] == a and nb[0] == b and not (a.startswith(("plt(", "Lt(", "Eq(", "LE(", "GE(")) or b.startswith(("plt(", "Lt(", "Eq(", "LE(", "GE("))):
                continue   # not two conditions
            rest = lits - {(txt, pol)}
            for (x, y) in ((na, nb), (nb, na)):
                tv = _truth_in(rest, x[0], x[1])
                if tv is None:
                    continue
                # Eq true: y == x ; Eq false: y == !x
                yv = tv if pol else (not tv)
                lits = rest | {y if yv else _flip(y)}
                changed = True
                break
            if changed:
                break
    return lits


def expand_bool_equalities(lits):
    """[literal set, ...]: every still undecided equality of two conditions split into its two cases"""
    lits = set(lits)
    for (txt, pol) in sorted(lits):
        m = re.match(r"^Eq\((.*)\)$", txt)
        if not m:
            continue
        a, b = split_top(m.group(1))
        if not a or not b:
            continue
        na, nb = normalise_bool(a, True), normalise_bool(b, True)
        cond = lambda x: x.startswith(("plt(", "Lt(", "Eq(", "LE(", "GE(", "EQ(", "some("))
        if not (cond(na[0]) and cond(nb[0])) or (na[0] == a and not cond(a)) or (nb[0] == b and not cond(b)):
            continue
        rest = lits - {(txt, pol)}
        out = []
        for va in (True, False):
            vb = va if pol else (not va)
            alt = rest | {na if va else _flip(na), nb if vb else _flip(nb)}
            alt = resolve_bool_equalities(simplify_int_literals(alt))
            out.extend(expand_bool_equalities(alt))
        return out
    return [lits]


CHECKED_ACCESS_RE = re.compile(r"^some\((?:\[T\]|std::vec::Vec|core::slice|std::slice)[A-Za-z_:<>]*::(get|get_mut)\(P1\.(?:store\.)?(?:heap|qp),")


ORD_EQ_RE = re.compile(r"^(Eq|Ne|std::cmp::PartialEq::eq|std::cmp::PartialEq::ne)\(Ordering::(Less|Equal|Greater)\(\),(std::cmp::(?:Ord::cmp|PartialOrd::partial_cmp))\((.*)\)\)$")


def normalise_bool(txt, truth):
    """(canonical text, polarity): le(a,b) == !lt(b,a); Le/Lt on integers likewise; Ne == !Eq; is_empty == eq(LEN,0)"""
    m = ORD_EQ_RE.match(txt)
    if m and m.group(2) in ("Less", "Greater"):
        # `a.cmp(b) == Ordering::Greater`  is  b < a ;  `== Less` is a < b
        a, b = split_top(m.group(4))
        if m.group(1) in ("Ne", "std::cmp::PartialEq::ne"):
            truth = not truth
        return ("plt(%s,%s)" % ((b, a) if m.group(2) == "Greater" else (a, b)), truth)
    mq = re.match(r"^<store::(?:Position|Index) as PartialEq<[A-Za-z:]*>>::(eq|ne)\((.*)\)$", txt)
    if mq:
        a, b = split_top(mq.group(2))
        a, b = sorted((a, b))
        return ("Eq(%s,%s)" % (a, b), truth if mq.group(1) == "eq" else not truth)
    m = CMP_RE.match(txt)
    if m:
        p, op, args = m.groups()
        a, b = split_top(args)
        if op == "le":
            return ("%slt(%s,%s)" % (p, b, a), not truth)
        return ("%slt(%s,%s)" % (p, a, b), truth)
    for op in ("Lt", "Le", "Eq", "Ne"):
        if txt.startswith(op + "(") and txt.endswith(")"):
            a, b = split_top(txt[len(op) + 1:-1])
            ma, mb = INT_RE.match(a), INT_RE.match(b)
            if ma or mb:
                # comparison with an integer literal: one normal form whatever the spelling
                if op in ("Eq", "Ne"):
                    k, x = (int(ma.group(1)), b) if ma else (int(mb.group(1)), a)
                    return int_literal("Eq", x, k, truth if op == "Eq" else not truth)
                if op == "Lt":
                    return int_literal("LtKA", b, int(ma.group(1)), truth) if ma else int_literal("LtAK", a, int(mb.group(1)), truth)
                if op == "Le":   # a <= b  ==  !(b < a)
                    return int_literal("LtAK", b, int(ma.group(1)), not truth) if ma else int_literal("LtKA", a, int(mb.group(1)), not truth)
            if op == "Le":
                return ("Lt(%s,%s)" % (b, a), not truth)
            if op == "Lt":
                return ("Lt(%s,%s)" % (a, b), truth)
            if op == "Ne":
                a, b = sorted((a, b))
                return ("Eq(%s,%s)" % (a, b), not truth)
            a, b = sorted((a, b))
            return ("Eq(%s,%s)" % (a, b), truth)
    if txt.startswith("std::cmp::PartialEq::ne(") :
        a, b = split_top(txt[len("std::cmp::PartialEq::ne("):-1])
        a, b = sorted((a, b))
        return ("Eq(%s,%s)" % (a, b), not truth)
    if txt.startswith("std::cmp::PartialEq::eq("):
        a, b = split_top(txt[len("std::cmp::PartialEq::eq("):-1])
        a, b = sorted((a, b))
        return ("Eq(%s,%s)" % (a, b), truth)
    return (txt, truth)


def is_drop_flag(f, t):
    d = t["discr"]
    if d["k"] in ("copy", "move") and not d["place"]["proj"]:
        l = d["place"]["local"]
        ds = f.defs.get(l, [])
        if ds and all(x[0] == "stmt" and x[3]["rv"]["k"] == "use" and x[3]["rv"]["op"]["k"] == "const" for x in ds):
            return True
    return False


POLARITY = [("min_by_key", "max_by_key"), ("heapify_min", "heapify_max"), ("bubble_up_min", "bubble_up_max"),
            ("::min(", "::max("), ("min_by(", "max_by(")]


def dualise(fact):
    """exchange polarity: lt(a,b) <-> lt(b,a) for *priority* comparisons, min <-> max selections, sibling names"""
    s = fact
    # swap operands of priority comparisons (canonical form is always lt/le): lt(A,B) -> lt(B,A)
    s = flip_priority_cmps(s)
    for a, b in POLARITY:
        s = s.replace(a, "\0").replace(b, a).replace("\0", b)
    # the literal set is unordered: re-sort it after the exchange
    if "  WHEN " in s:
        head, w = s.split("  WHEN ", 1)
        s = head + "  WHEN " + " & ".join(sorted(w.split(" & ")))
    return s


def flip_priority_cmps(s):
    out = []
    i = 0
    while i < len(s):
        m = re.compile(r"(plt|ple)\(").match(s, i)
        if m and (i == 0 or not (s[i - 1].isalnum() or s[i - 1] == "_")):
            j = m.end()
            depth = 1
            k = j
            comma = None
            while k < len(s) and depth:
                ch = s[k]
                if ch in "([{":
                    depth += 1
                elif ch in ")]}":
                    depth -= 1
                elif ch == "," and depth == 1 and comma is None:
                    comma = k
                k += 1
            if comma is not None:
                a = s[j:comma]
                b = s[comma + 1:k - 1]
                out.append("%s(%s,%s)" % (m.group(1), flip_priority_cmps(b), flip_priority_cmps(a)))
                i = k
                continue
        out.append(s[i])
        i += 1
    return "".join(out)


def _subterms(s):
    """balanced `name(...)` / `mu{...}` substrings of s"""
    out = []
    stack = []
    starts = {}
    i = 0
    n = len(s)
    # identifier start positions
    id_start = None
    for i, ch in enumerate(s):
        if ch.isalnum() or ch in "_:<>[]T":
            if id_start is None:
                id_start = i
        else:
            if ch in "({":
                stack.append((id_start if id_start is not None else i, i))
            elif ch in ")}":
                if stack:
                    st, op = stack.pop()
                    out.append(s[st:i + 1])
            id_start = None
    return out


def abbreviate(strings, rounds=8, minlen=45):
    """replace repeated long sub-terms by short aliases to make skeleton diffs readable"""
    strings = list(strings)
    legend = []
    for r in range(rounds):
        counts = {}
        for s in strings:
            for t in set(_subterms(s)):
                if len(t) >= minlen and "\u2039" not in t[:1]:
                    counts[t] = counts.get(t, 0) + s.count(t)
        best = None
        for t, c in counts.items():
            if c >= 2:
                score = (len(t) - 4) * (c - 1)
                if best is None or score > best[0]:
                    best = (score, t)
        if not best:
            break
        alias = "\u2039%s\u203a" % "ABCDEFGH"[r]
        legend.append("%s = %s" % (alias, best[1]))
        strings = [s.replace(best[1], alias) for s in strings]
    return strings, legend


def load_spec():
    if not os.path.exists(SPEC):
        return None
    return json.load(open(SPEC))


def _unfold_log2(txt):
    """replace every `<path>::log2_fast(ARG)` in a rendered fact by the reviewed body `SubWithOverflow(63_u32,usize::leading_zeros(ARG)).0`"""
    out = txt
    for _ in range(8):
        m = re.search(r"[A-Za-z_:]*::log2_fast\(", out)
        if not m:
            break
        i = m.end()
        depth = 1
        j = i
        while j < len(out) and depth:
            depth += {"(": 1, ")": -1}.get(out[j], 0)
            j += 1
        if depth:
            break
        arg = out[i:j - 1]
        out = out[:m.start()] + "SubWithOverflow(63_u32,usize::leading_zeros(%s)).0" % arg + out[j:]
    return out


def r_sift(ctx, view, Q):
    prog = view.prog
    ctx.cur = view
    sk = Skel(view)
    spec = load_spec()
    ctx.anchor("rules/sift_spec.json", spec is not None)
    skels = {}
    for name in SIFT_FNS[Q]:
        f = prog.fn("%s::%s" % (Q, name))
        ctx.anchor("%s::%s" % (Q, name), f is not None)
        facts = []
        for g in [f]:
            facts = sk.skeleton(g)
        if name == "heap_build":
            # building a heap of one element does nothing (heapify returns at once on its only node): a rebuild that is skipped
            # for `len <= 1` is the rebuild that is skipped for `len == 0`
            facts = [re.sub(r"GE\(LEN,2\)", "GE(LEN,1)", x) for x in facts]
        skels[name] = facts
        want = spec.get("%s::%s" % (Q, name))
        ctx.anchor("spec for %s::%s" % (Q, name), want is not None)
        missing = [x for x in want if x not in facts]
        extra = [x for x in facts if x not in want]
        ok = not missing and not extra
        msg = "decision skeleton (%d facts) equals the reviewed one" % len(facts)
        if not ok:
            ab, legend = abbreviate(missing + extra)
            msg = ("decision skeleton deviates from the reviewed sift algorithm.  REVIEWED BUT ABSENT: %s  ||  PRESENT BUT NOT REVIEWED: %s  ||  where %s" % (
                " ;; ".join(ab[:len(missing)][:3]) or "-", " ;; ".join(ab[len(missing):][:3]) or "-", " ; ".join(legend)))[:2400]
        ctx.ob("R-SIFT", "%s::%s" % (QNAME[Q], name), ok, f.loc(), msg, missing=missing, extra=extra)
    for k in tree_fn_keys(Q):
        f = prog.fn(k)
        ctx.anchor(k, f is not None)
        facts = sk.skeleton(f)
        want = spec.get(k)
        ctx.anchor("spec for " + k, want is not None)
        if not k.endswith("::log2_fast"):
            # `log2_fast(x)` written out where it is used is the same arithmetic: both sides are compared with the reviewed
            # body of log2_fast substituted for its calls (log2_fast itself is compared with its own reviewed body)
            facts = [_unfold_log2(x) for x in facts]
            want = [_unfold_log2(x) for x in want]
        missing = [x for x in want if x not in facts]
        extra = [x for x in facts if x not in want]
        ok = not missing and not extra
        ctx.ob("R-SIFT", "%s::%s" % (QNAME[Q], k.split("::")[-1]), ok, f.loc(),
               "index arithmetic equals the reviewed one: %s" % "; ".join(x for x in facts if x.startswith("RETURNS")) if ok else
               "index arithmetic of the implicit tree deviates: reviewed %s, found %s" % (missing[:2], extra[:2]))
    if Q == DPQ:
        for a, b in DUAL_PAIRS:
            fa, fb = skels[a], skels[b]
            da = sorted(dualise(x) for x in fa)
            ok = da == sorted(fb)
            diff_a = [x for x in da if x not in fb]
            diff_b = [x for x in fb if x not in da]
            msg = "the two siblings are polarity duals (%d facts each)" % len(fa)
            if not ok:
                ab, legend = abbreviate(diff_a + diff_b)
                msg = ("siblings are not polarity duals.  ONLY IN dual(%s): %s  ||  ONLY IN %s: %s  ||  where %s" % (
                    a, " ;; ".join(ab[:len(diff_a)][:2]) or "-", b, " ;; ".join(ab[len(diff_a):][:2]) or "-", " ; ".join(legend)))[:2400]
            ctx.ob("R-DUAL", "DoublePriorityQueue::%s~%s" % (a, b), ok, prog.fn("%s::%s" % (Q, b)).loc(), msg)
        # the two mixed arms of bubble_up must be duals of each other: checked through the spec of bubble_up
    return skels


PRIM_FNS = ["store::Store::swap", "store::Store::swap_remove", "store::Store::remove"]


def r_prim(ctx, view):
    """R-PRIM: the three index-juggling Store primitives (swap, swap_remove, keyed remove with its four-case repair)
    equal their reviewed guarded-effect skeletons: every table write with its subscript, its value and the branch
    literals that guard it"""
    ctx.cur = view
    sk = Skel(view)
    spec = load_spec()
    ctx.anchor("rules/sift_spec.json", spec is not None)
    for k in PRIM_FNS:
        f = view.prog.fn(k)
        ctx.anchor(k, f is not None)
        facts = sk.family_skeleton(k)
        want = spec.get("family:" + k)
        ctx.anchor("spec for " + k, want is not None)
        missing = [x for x in want if x not in facts]
        extra = [x for x in facts if x not in want]
        ok = not missing and not extra
        msg = "guarded-effect skeleton (%d facts) equals the reviewed one" % len(facts)
        if not ok:
            ab, legend = abbreviate(missing + extra)
            msg = ("deviates from the reviewed primitive.  REVIEWED BUT ABSENT: %s  ||  PRESENT BUT NOT REVIEWED: %s  ||  where %s" % (
                " ;; ".join(ab[:len(missing)][:3]) or "-", " ;; ".join(ab[len(missing):][:3]) or "-", " ; ".join(legend)))[:2000]
        ctx.ob("R-PRIM", k.replace("store::", ""), ok, f.loc(), msg)
