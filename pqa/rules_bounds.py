"""R-UNITS (a heap subscript is a Position, a qp / map-slot subscript is an Index) and
R-BOUNDS (every site that trusts the representation invariant has a recognised justification).

R-BOUNDS is modular: a small table of function CONTRACTS (preconditions on position / index parameters and
on the length; postconditions of results), filled by reading this repository, is verified from both sides:
inside each function every obligation must follow from the contract, dominating guards and provenance;
at each call site the callee's preconditions must be established the same way."""
from . import core as _core
from .core import walk, strip, term_str, component, const_int, STORE, foreign_expansion
from .flowvp import FlowVP, canon
from .rules_decl import PQ, DPQ, QUEUES, QNAME
from .rules_order import short

POSITION = "store::Position"
INDEX = "store::Index"

# ------------------------------------------------------------------------------------------
# R-UNITS
# ------------------------------------------------------------------------------------------
SUBSCRIPT_CALLS = {"get": [1], "get_mut": [1], "get_unchecked": [1], "get_unchecked_mut": [1], "index": [1], "index_mut": [1],
                   "swap": [1, 2], "swap_remove": [1], "remove": [1], "insert": [1], "split_at": [1], "truncate": []}
MAP_SLOT_CALLS = {"get_index": [1], "get_index_mut": [1], "get_index_mut2": [1], "swap_remove_index": [1], "shift_remove_index": [1],
                  "get_index_entry": [1], "swap_indices": [1, 2], "move_index": [1, 2]}
INDEXMAP_INDEX_RESULTS = {"index", "get_full", "get_full_mut", "get_full_mut2", "swap_remove_full", "shift_remove_full", "insert_full",
                          "get_index_of", "insert_sorted"}


# cursor fields of the raw-pointer iterators, by role: {(type path, field): 'front' | 'back'}; filled per view by
# set_cursor_fields() from the MIR of their next / next_back (whatever the fields are called)
CURSOR_FIELDS = {}


def set_cursor_fields(view):
    from .rules_iter import raw_extension_sites, cursor_info
    CURSOR_FIELDS.clear()
    for k in raw_extension_sites(view):
        f = view.prog.fn(k)
        if f is None or f.name not in ("next", "next_back"):
            continue
        T = (f.j.get("impl_self") or {}).get("path")
        ci = cursor_info(view, f)
        if T and ci["cursor"]:
            CURSOR_FIELDS[(T, ci["cursor"])] = "front" if f.name == "next" else "back"
    # hand-written safe cursor iterators that obey the cursor discipline (R-SELFMADE, run by the same check)
    from .rules_iter import r_selfmade, selfmade_types, _len_shape, self_field
    from .rules_sift import Skel
    try:
        res = r_selfmade(None, view, fixture=True)
    except Exception:
        res = {}
    sk = Skel(view)
    for (T, nx, nb, ln) in selfmade_types(view):
        if ln is None or T not in res or res[T][0]:
            continue
        cx, cy, X, Y = _len_shape(view, sk, ln)
        tp = (nx.j.get("impl_self") or {}).get("path")
        if tp and Y is not None and self_field(Y):
            CURSOR_FIELDS[(tp, self_field(Y))] = "front"
        if tp and X is not None and self_field(X):
            CURSOR_FIELDS[(tp, self_field(X))] = "back"


def is_cursor(t, role=None):
    """t = `self.<f>` with <f> a cursor field of its iterator type"""
    return t[0] == "field" and (t[3], t[2]) in CURSOR_FIELDS and (role is None or CURSOR_FIELDS[(t[3], t[2])] == role)


def unit_of(t, depth=0):
    """unit of a usize-valued term: 'Position' | 'Index' | 'const' | 'slot' (map index from the indexmap API) | 'cursor' | None"""
    t = strip(t)
    if depth > 12:
        return None
    k = t[0]
    if k == "const":
        return "const"
    if k == "field":
        if t[3] == POSITION:
            return "Position"
        if t[3] == INDEX:
            return "Index"
        base = strip(t[1])
        # tuple results of the indexmap API: .0 is the slot index
        if t[2] in (0, "0") and base[0] == "binop":
            return unit_of(base, depth + 1)   # value half of a checked-arithmetic pair
        if t[2] in (0, "0"):
            b = base
            if b[0] == "some":
                b = strip(b[1])
            if b[0] == "call" and b[1].split("::")[-1] in INDEXMAP_INDEX_RESULTS:
                return "Index"
        # iterator cursor fields (map slot cursors of the IterMut types)
        if is_cursor(t):
            return "Index"
        return None
    if k == "call":
        nm = t[1].split("::")[-1]
        if nm == "index" and "Entry" in t[1]:
            return "Index"
        return None
    if k == "some":
        # the loop variable of `for i in 0..map.len()`: the slot numbers of the map, by construction
        from .rules_misc import is_slot_range_var
        if is_slot_range_var(t):
            return "Index"
        return None
    if k == "binop" and t[1].startswith(("Add", "Sub")):
        # a neighbour of a slot is a slot (cursor - 1)
        ua, ub = unit_of(t[2], depth + 1), unit_of(t[3], depth + 1)
        if ub == "const" and ua not in (None, "const"):
            return ua
        return None
    if k in ("phi", "mu"):
        alts = t[4] if k == "phi" else t[1]
        us = {unit_of(a, depth + 1) for a in alts if a[0] != "rec"}
        us.discard("const")
        if len(us) == 1:
            return us.pop()
        if not us:
            return "const"
        return None
    if k == "cparam" or k == "some":
        return None
    return None


def r_units(ctx, view, only=None):
    set_cursor_fields(view)
    prog = view.prog
    fvp = FlowVP(view)
    ctx.cur = view
    n = 0
    for f in sorted(prog.fns.values(), key=lambda x: x.key):
        if f.j.get("auto_derived") or (only and not only(f)):
            continue
        for bb, t in f.calls():
            if "func" not in t:
                continue
            nm = t["func"]["name"]
            args = None
            want = None
            subs = []
            if t["func"]["key"].startswith("std::mem::"):
                continue   # mem::swap(&mut a.heap, &mut b.heap) exchanges whole tables: nothing is subscripted
            if nm in SUBSCRIPT_CALLS or nm in MAP_SLOT_CALLS:
                args = fvp.call_args(f, bb)
                if not args:
                    continue
                c = component(args[0])
                if c and c[0] in ("heap", "qp") and nm in SUBSCRIPT_CALLS:
                    want = "Position" if c[0] == "heap" else "Index"
                    subs = [args[i] for i in SUBSCRIPT_CALLS[nm] if i < len(args)]
                elif c and c[0] == "map" and nm in MAP_SLOT_CALLS:
                    want = "Index"
                    subs = [args[i] for i in MAP_SLOT_CALLS[nm] if i < len(args)]
                else:
                    continue
                for s in subs:
                    u = unit_of(s)
                    n += 1
                    ok = u in (want, "const")
                    ctx.ob("R-UNITS", "%s:bb%d:%s.%s" % (short(f.key), bb, c[0], nm), ok, f.loc(t["span"]),
                           "`%s` subscript of %s must be a %s; found unit %s (%s)" % (nm, c[0], want, u, term_str(s)[:70]))
    if not only:
        ctx.floor("R-UNITS", n, 55)
    return n


# ------------------------------------------------------------------------------------------
# R-BOUNDS
# ------------------------------------------------------------------------------------------
# contracts: param index -> requirement; 'len>=' state requirement; 'post' -> result property
CONTRACTS = {
    PQ + "::heapify": {"pos<len": [2]},
    PQ + "::bubble_up": {"pos<len": [2], "idx<len": [3], "post": "result<len"},
    PQ + "::up_heapify": {"pos<len": [2]},
    DPQ + "::heapify": {},
    DPQ + "::heapify_min": {"len>=": 2},
    DPQ + "::heapify_max": {"len>=": 2},
    DPQ + "::bubble_up": {"pos<len": [2], "idx<len": [3], "post": "result<len"},
    DPQ + "::bubble_up_min": {"pos<len": [2], "idx<len": [3], "post": "result<len"},
    DPQ + "::bubble_up_max": {"pos<len": [2], "idx<len": [3], "post": "result<len"},
    DPQ + "::up_heapify": {},
    "store::Store::swap": {"pos<len": [2, 3]},
    "store::Store::swap_remove": {"pos<len": [2]},
    "store::Store::swap_remove_if": {"pos<len": [2]},
    "store::Store::get_priority_from_position": {"pos<len": [2]},
    "priority_queue::parent": {"pos>=1": [1], "post": "result<=arg"},
    "double_priority_queue::parent": {"pos>=1": [1], "post": "result<=arg"},
    "priority_queue::log2_fast": {"n>=1": [1]},
    "double_priority_queue::log2_fast": {"n>=1": [1]},
    DPQ + "::find_max": {"post": "some<len"},
    DPQ + "::find_min": {"post": "some<len"},
}
# documented / structural residual justifications (one reason each); keyed by function + kind
RESIDUAL = {
    ("store::Store::swap_remove", "shrink-primitive"): "accesses inside the shrink primitive are ordered around the two swap_removes; their guards are R-REPAIR's obligations",
    ("store::Store::remove::{closure#0}", "shrink-primitive"): "same (keyed removal: the hit index comes from indexmap; guards are R-REPAIR's obligations)",
}


class Facts:
    """inequality facts that hold at a program point, from dominating branch edges"""

    def __init__(self, rb, f, bb):
        self.rb = rb
        self.f = f
        self.bb = bb
        self.lt_len = set()      # canonical position/usize terms known < LEN
        self.ge1 = set()         # canonical terms known >= 1
        self.len_ge = 0
        self.le_parent_last = set()  # terms known <= parent(Position(LEN-1))
        self.key_present = set()
        self.lt = set()          # (a, b) canonical a < b
        self.collect()

    def collect(self):
        f, rb = self.f, self.rb
        cfg = f.cfg
        fvp = rb.fvp
        groups = {}
        for sb in sorted(cfg.reach):
            t = f.term(sb)
            if t["k"] != "switch" or not cfg.dominates(sb, self.bb) or sb == self.bb:
                continue
            # which successor dominates bb ?
            succs = list(dict.fromkeys([tb for _, tb in t["targets"]] + [t["otherwise"]]))
            taken = [s for s in succs if cfg.dominates(s, self.bb) and len([p for p in cfg.pred[s] if p in cfg.reach]) == 1]
            if len(taken) != 1:
                # early-return idiom: `if cond { return }` - the other edge cannot reach bb
                reach = [s for s in succs if self.bb in cfg.reachable_from(s) or s == self.bb]
                if len(reach) != 1:
                    continue
                taken = reach
            tk = taken[0]
            vals = [v for v, tb in t["targets"] if tb == tk]
            is_else = (t["otherwise"] == tk)
            d = fvp.switch_discr(f, sb)
            # the guard speaks about the state in which its length was READ (the switch itself for `if self.is_empty()`, the
            # definition of the snapshot for `let n = self.len(); ..; if n != 1`); the obligation is at `bb`: what the code
            # between the two does to the length decides how much of the guard is still true
            reads = rb.len_read_sites(f, sb)
            gkey = tuple(reads) if reads else ("at", sb, tk)
            groups.setdefault(gkey, []).append((sb, tk, strip(d), vals, is_else, [v for v, _ in t["targets"]]))
        for gkey, guards in groups.items():
            if gkey and gkey[0] == "at":
                shr, grw = rb.len_changes_between(f, guards[0][0], [(guards[0][1], "block", 0, "*")], self.bb)
            else:
                # a path that re-reads the length re-establishes the guard: cut at the (single) read
                shr, grw = rb.len_changes_between(f, None, list(gkey), self.bb)
            if shr == 0 and grw == 0:
                for (sb, tk, d, vals, is_else, allv) in guards:
                    self.add_fact(d, vals, is_else, allv)
                continue
            tmp = Facts.__new__(Facts)
            tmp.rb, tmp.f, tmp.bb = rb, f, self.bb
            tmp.lt_len, tmp.ge1, tmp.len_ge, tmp.le_parent_last, tmp.key_present, tmp.lt = set(), set(), 0, set(), set(), set()
            for (sb, tk, d, vals, is_else, allv) in guards:
                tmp.add_fact(d, vals, is_else, allv)
            if shr == 0:
                # growth only: lower bounds and `< LEN` facts survive, upper bounds and exact lengths do not
                self.lt_len |= tmp.lt_len
                self.ge1 |= tmp.ge1
                self.lt |= tmp.lt
                self.key_present |= tmp.key_present
                self.len_ge = max(self.len_ge, tmp.len_ge)
                if getattr(tmp, "hit", False):
                    self.hit = True
            else:
                # removals between guard and use: `LEN >= k` degrades to `LEN >= k - removals`; nothing else about LEN survives
                if shr is not None and tmp.len_ge - shr > 0:
                    self.len_ge = max(self.len_ge, tmp.len_ge - shr)
                for x in tmp.ge1:
                    if x != "LEN":
                        self.ge1.add(x)
                for (a, b) in tmp.lt:
                    if "LEN" not in a and "LEN" not in b:
                        self.lt.add((a, b))

    def add_fact(self, d, vals, is_else, all_vals):
        c = self.rb.c
        while d[0] == "defat":      # a condition computed where a named boolean was assigned (`let ok = a > b; if ok ..`)
            d = strip(d[2])
        # boolean condition: true iff edge value != 0
        truth = None
        if is_else and 0 in all_vals:
            truth = True
        elif vals == [0]:
            truth = False
        elif vals and 0 not in vals:
            truth = True
        if d[0] == "discr":
            names = dict(d[2]) if len(d) > 2 and d[2] else {}
            from .core import PRESENT_VARIANTS
            if names:
                here = {names[v] for v in vals if v in names} | ({n for v, n in names.items() if v not in all_vals} if is_else else set())
                some_edge = bool(here) and here <= PRESENT_VARIANTS
            else:
                some_edge = (vals == [1]) or (is_else and all_vals == [0])
            if some_edge:
                x = strip(d[1])
                if x[0] == "call" and x[1] == "std::ops::Try::branch" and x[2]:
                    x = strip(x[2][0])
                if x[0] == "call" and x[1].split("::")[-1] == "get" and x[2] and component(x[2][0]) and component(x[2][0])[0] in ("heap", "qp"):
                    self.lt_len.add(c(self.rb.pos_of_sub(x[2][1])))
                    self.len_ge = max(self.len_ge, 1)
                # a successful keyed lookup / removal: the store held that entry, so it is (was) not empty
                if x[0] == "call" and x[1].split("::")[-1] in ("swap_remove_full", "get_full_mut", "get_full_mut2", "get_full", "get_mut", "swap_remove"):
                    self.hit = True
                    self.len_ge = max(self.len_ge, 1)
                if x[0] == "call" and x[1].split("::")[-1] in ("find_max", "find_min"):
                    self.len_ge = max(self.len_ge, 1)
            return
        if d[0] == "unop" and d[1] == "Not":
            d = strip(d[2])
            truth = None if truth is None else (not truth)
        # match on len()
        if self.rb.is_len(d):
            if vals and not is_else:
                if len(vals) == 1:
                    self.len_ge = max(self.len_ge, vals[0])
                    self.len_eq = vals[0]
            elif is_else:
                # len not in listed values: if values are 0..k-1 then len >= k
                k = 0
                while k in all_vals:
                    k += 1
                self.len_ge = max(self.len_ge, k)
            return
        if d[0] == "mu":
            # `while if a { b } else { false }`: the loop body is entered only when some alternative other than
            # the constant false is true; every such alternative's own dominators are collected separately
            for a in d[1]:
                if a[0] == "const":
                    continue
                if truth is True:
                    self.add_fact(strip(a), vals, is_else, all_vals)
            return
        if truth is None:
            if d[0] == "discr" and vals == [1] or (d[0] == "discr" and is_else and all_vals == [0]):
                x = strip(d[1])
                # Some edge of heap.get(i.0): i < len
                if x[0] == "call" and x[1].split("::")[-1] == "get" and component(x[2][0]) and component(x[2][0])[0] in ("heap", "qp"):
                    self.lt_len.add(c(self.rb.pos_of_sub(x[2][1])))
                if x[0] == "call" and x[1].split("::")[-1] in ("get_index", "get_index_mut2") and component(x[2][0]):
                    self.lt_len.add(c(self.rb.pos_of_sub(x[2][1])))
            return
        if d[0] == "call":
            nm = d[1].split("::")[-1]
            if nm in ("lt", "le", "gt", "ge") and len(d[2]) == 2:
                a, b = strip(d[2][0]), strip(d[2][1])
                self.cmp_fact(nm, a, b, truth)
            elif nm == "is_empty":
                if truth is False:
                    self.len_ge = max(self.len_ge, 1)
            elif nm == "contains_key" and truth and len(d[2]) == 2:
                self.key_present.add(c(d[2][1]))
            elif nm in ("is_some",) and truth:
                pass
        elif d[0] == "binop":
            op = d[1].lower()
            if op in ("lt", "le", "gt", "ge", "eq", "ne"):
                self.cmp_fact(op, strip(d[2]), strip(d[3]), truth)

    def cmp_fact(self, op, a, b, truth):
        """record a op b (if truth) or its negation"""
        c = self.rb.c
        neg = {"lt": "ge", "le": "gt", "gt": "le", "ge": "lt", "eq": "ne", "ne": "eq"}
        if not truth:
            op = neg[op]
        if op in ("gt", "ge"):
            a, b = b, a
            op = {"gt": "lt", "ge": "le"}[op]
        rb = self.rb
        A, B = rb.pos_of_sub(a), rb.pos_of_sub(b)
        if op == "lt":
            if rb.is_len(b):
                self.lt_len.add(c(A))
            self.ge1.add(c(B))                      # a < b  =>  b >= 1
            self.lt.add((c(A), c(B)))
            if rb.is_len(b):
                self.len_ge = max(self.len_ge, 1)
            if rb.is_len(a):
                pass
        elif op == "le":
            if rb.is_parent_of_last(B):
                self.le_parent_last.add(c(A))
                self.lt_len.add(c(A))
            if rb.is_len(a) and const_int(b) is not None:
                self.len_le = const_int(b)
            if const_int(a) is not None and const_int(a) >= 1:
                self.ge1.add(c(B))
            # len <= k negated handled via lt
        elif op == "ne":
            for x, y in ((a, b), (b, a)):
                if rb.is_len(x) and const_int(y) is not None:
                    self.len_ne = getattr(self, "len_ne", set()) | {const_int(y)}
                    while self.len_ge in self.len_ne:
                        self.len_ge += 1
            if const_int(b) == 0:
                self.ge1.add(c(A))
                if rb.is_len(a):
                    self.len_ge = max(self.len_ge, 1)
            if const_int(a) == 0:
                self.ge1.add(c(B))
                if rb.is_len(b):
                    self.len_ge = max(self.len_ge, 1)
        elif op == "eq":
            if rb.is_len(a) and const_int(b) is not None:
                self.len_eq = const_int(b)
                self.len_ge = max(self.len_ge, const_int(b))
            if rb.is_len(b) and const_int(a) is not None:
                self.len_eq = const_int(a)
                self.len_ge = max(self.len_ge, const_int(a))
        if op == "lt" and rb.is_len(a) and const_int(b) is not None:
            self.len_le = const_int(b) - 1
        if op == "le" and rb.is_len(a) and const_int(b) is not None:
            self.len_le = const_int(b)
        # `len <= 1` false  =>  len >= 2 ; `len > 1`
        if op == "lt" and const_int(a) is not None and rb.is_len(b):
            self.len_ge = max(self.len_ge, const_int(a) + 1)
        if op == "le" and const_int(a) is not None and rb.is_len(b):
            self.len_ge = max(self.len_ge, const_int(a))


class RB:
    def __init__(self, view):
        self.view = view
        self.fvp = FlowVP(view)
        self._facts = {}
        self.inferred = {}

    def c(self, t):
        return canon(t)

    def facts(self, f, bb):
        k = (f.key, bb)
        if k not in self._facts:
            fa = Facts(self, f, bb)
            fa.len_ge = max(fa.len_ge, self.contract_len_ge(f))
            self._facts[k] = fa
        return self._facts[k]

    def len_change_blocks(self, f):
        """block -> (may remove elements, may add elements) for the call / statement events of f that change the length"""
        if not hasattr(self, "_lcb"):
            self._lcb = {}
        if f.key in self._lcb:
            return self._lcb[f.key]
        fx = self.view.fx
        eff = fx.effects
        SHR = {"MW:shrink", "MW:clear", "MW:retain", "MW:raw"}
        GRW = {"MW:grow", "MW:raw"}
        out = {}
        self._lce = getattr(self, "_lce", {})
        pos_list = self._lce.setdefault(f.key, [])
        cur = [None]

        def mark(bb, s, g, comp="*"):
            a, b = out.get(bb, (False, False))
            out[bb] = (a or s, b or g)
            si = cur[0].get("si") if cur[0] is not None else "term"
            pos_list.append((bb, 10 ** 6 if si == "term" else si, s, g, comp))

        for ev in fx.events(f):
            k = ev["kind"]
            cur[0] = ev
            if k == "tw":
                how = ev.get("how") or ""
                if how.startswith("call:"):
                    nm = how[5:].split("::")[-1]
                    if nm in ("swap_remove", "pop", "truncate", "clear", "drain", "remove", "retain", "retain_mut", "split_off", "take", "replace", "swap"):
                        mark(ev["bb"], True, nm in ("take", "replace", "swap"), ev.get("comp") if ev.get("comp") in ("heap", "qp") else "*")
                    elif nm in ("push", "insert", "extend", "resize", "append", "extend_from_slice"):
                        mark(ev["bb"], False, True, ev.get("comp") if ev.get("comp") in ("heap", "qp") else "*")
                elif ev.get("comp") == "size":
                    v = strip(ev.get("val") or ("other",))
                    if v[0] == "field" and v[1][0] == "binop":
                        v = v[1]
                    op = v[1] if v[0] == "binop" else ""
                    mark(ev["bb"], not op.startswith("Add"), not op.startswith("Sub"), "size")
            elif k in ("mw", "mwraw"):
                mc = ev.get("mclass", "raw")
                if mc in ("shrink", "clear", "retain", "raw", "replace"):
                    mark(ev["bb"], True, mc in ("raw", "replace"), "map")
                elif mc == "grow":
                    mark(ev["bb"], False, True, "map")
            if "ci" in ev:
                ci = ev["ci"]
                tg = ([ci.local_callee] if ci.local_callee else []) + [c for c in ci.closures if c in self.view.prog.fns]
                for g in tg:
                    e = eff.get(g, set())
                    sh = bool(e & SHR)
                    gr = bool(e & GRW)
                    if "TW:size" in e and not (sh or gr):
                        sh = gr = True
                    if sh or gr:
                        mark(ev["bb"], sh, gr)
        self._lcb[f.key] = out
        return out

    def len_read_sites(self, f, sb):
        """where the length tested by the switch at sb was read: [(block, 'call'|'stmt')] following single-assignment
        locals backwards from the discriminant (a `len()` / `is_empty()` call, a read of the `size` field); [] when the
        discriminant does not read the length through such a chain"""
        out = set()
        seen = set()

        def op(o, depth):
            if o["k"] not in ("copy", "move") or depth > 8:
                return
            pl = o["place"]
            if any(e["k"] == "field" and e.get("name") == "size" and e.get("of") == "store::Store" for e in pl["proj"]):
                return "size"
            l = pl["local"]
            if pl["proj"] and pl["proj"][0]["k"] == "deref":
                # `*size` with `size = &mut self.size` (destructured self): the read happens here, not where the reference was made
                dr = f.defs.get(l, [])
                if len(dr) == 1 and dr[0][0] == "stmt" and dr[0][3]["rv"]["k"] == "ref" and any(
                        e["k"] == "field" and e.get("name") == "size" and e.get("of") == "store::Store" for e in dr[0][3]["rv"]["place"]["proj"]):
                    return "size"
            if l in seen:
                return
            seen.add(l)
            ds = f.defs.get(l, [])
            if len(ds) != 1 or f.locals[l]["arg"]:
                return
            d = ds[0]
            if d[0] == "call":
                t = d[2]
                nm = t["func"]["name"] if "func" in t else ""
                if nm in ("len", "is_empty"):
                    q = "size"
                    ci = self.view.fx.call_info(f, d[1])
                    if not ci.local_callee:
                        a = self.view.fx.args_vp(ci)
                        c = component(a[0]) if a else None
                        q = c[0] if c and c[0] in ("heap", "qp", "map", "size") else "*"
                    out.add((d[1], "call", 10 ** 6, q))
                return
            rv = d[3]["rv"]
            for k in ("op", "a", "b"):
                if isinstance(rv.get(k), dict):
                    if op(rv[k], depth + 1) == "size":
                        out.add((d[1], "stmt", d[2], "size"))
            if rv["k"] != "ref" and "place" in rv:
                pl2 = rv["place"]
                if any(e["k"] == "field" and e.get("name") == "size" and e.get("of") == "store::Store" for e in pl2["proj"]):
                    out.add((d[1], "stmt", d[2], "size"))
        t = f.term(sb)
        if op(t["discr"], 0) == "size":
            out.add((sb, "stmt", 10 ** 6, "size"))
        return sorted(out, key=str)

    def len_changes_between(self, f, guard, starts, end):
        """(max number of removing events, number of adding events) between the read(s) of the length and `end`.
        starts: [(block, kind, pos, quantity)]: kind 'block' = from the beginning of that block (a taken edge); 'call' = after
        that block's terminator (the len() call itself); 'stmt' = from statement pos of that block on.  quantity = which
        length was read ('size', 'heap', 'qp', 'map', '*'): inside the shrink primitives the four differ transiently, and only
        events on the quantity read (or on the whole store / through a callee) count.  Paths through the guard block (or
        through the read) re-establish the fact and are cut; the events of `end` itself come after the use; removals on a
        cycle inside the region give None (unbounded)"""
        self.len_change_blocks(f)
        evs = self._lce.get(f.key, [])
        if not evs:
            return 0, 0
        qs = {q for (_, _, _, q) in starts}
        evs = [e for e in evs if e[4] == "*" or "*" in qs or e[4] in qs]
        if not evs:
            return 0, 0
        cfg = f.cfg
        cut = {guard} if guard is not None else {b for b, k, si, q in starts}

        def reach(frm_list, edges):
            seen = set(frm_list)
            st = list(frm_list)
            while st:
                x = st.pop()
                for y in edges[x]:
                    if y not in seen and y not in cut:
                        seen.add(y)
                        st.append(y)
            return seen

        first = []
        own = []   # events of the read's own block that come after the read
        for b, kind, si, q in starts:
            if kind == "block":
                first.append(b)
            else:
                if b != end:
                    first.extend(cfg.succ[b])
                if kind == "stmt":
                    own.extend(e for e in evs if e[0] == b and e[1] > si and (b != end or e[1] < 10 ** 6))
        fwd = reach(first, cfg.succ) if first else set()
        bwd = reach([end], cfg.pred) | {end}
        region = (fwd & bwd) - {end}
        shr_b = sorted({e[0] for e in evs if e[0] in region and e[2]})
        grw_n = len({e[0] for e in evs if e[0] in region and e[3]}) + len([e for e in own if e[3]])
        own_shr = [e for e in own if e[2]]
        if not shr_b and not own_shr:
            return 0, grw_n
        for b in shr_b:
            seen = set()
            st = [y for y in cfg.succ[b] if y in region]
            while st:
                x = st.pop()
                if x == b:
                    return None, grw_n
                if x in seen:
                    continue
                seen.add(x)
                st.extend(y for y in cfg.succ[x] if y in region)
        return len(shr_b) + len(own_shr), grw_n

    def is_len(self, t):
        t = strip(t)
        if t[0] == "call" and t[1].split("::")[-1] == "len":
            a = strip(t[2][0]) if t[2] else None
            if a is None:
                return False
            if a[0] == "param" and a[2] == 1:
                return True
            c = component(a)
            if c and c[0] in ("heap", "qp", "map"):
                return True
            if a[0] == "field" and a[2] in _core.CARRIER:
                return True
            return False
        c = component(t)
        return bool(c and c[0] == "size")

    def pos_of_sub(self, t):
        """normalise a subscript `X.0` to the position/index value X (canonical comparisons are on X)"""
        t = strip(t)
        if t[0] == "field" and t[2] in (0, "0") and t[3] in (POSITION, INDEX):
            return strip(t[1])
        return t

    def contract_len_ge(self, f):
        """a function whose contract names a valid position parameter runs on a non-empty heap"""
        if f.is_closure:
            return 0
        con = CONTRACTS.get(f.key, {})
        n = con.get("len>=", 0)
        if con.get("pos<len") or con.get("idx<len"):
            shrinks = any(e["kind"] == "tw" and e.get("how") in ("call:swap_remove", "call:clear", "call:pop", "call:truncate") for e in self.view.fx.events(f))
            if not shrinks:
                n = max(n, 1)
        return n

    def is_parent_of_last(self, t):
        """parent(Position(LEN - 1))"""
        t = strip(t)
        if t[0] == "call" and t[1].split("::")[-1] == "parent" and t[2]:
            a = strip(t[2][0])
            if a[0] == "adt" and a[1].endswith("Position"):
                x = strip(a[3][0])
                if x[0] == "field" and x[1][0] == "binop":
                    x = x[1]
                if x[0] == "binop" and x[1].startswith("Sub") and self.is_len(x[2]) and const_int(strip(x[3])) == 1:
                    return True
        return False

    # ---- provers ------------------------------------------------------------------------
    def valid(self, f, bb, t, kind="pos", depth=0, seen=()):
        """is position/index term t < LEN at block bb of f ?  -> (bool, reason)"""
        t = self.pos_of_sub(t)
        key = self.c(t)
        if depth > 10:
            return False, "too deep"
        fa = self.facts(f, bb)
        con = CONTRACTS.get(root_key(self.view.prog, f), {}) if not f.is_closure else {}
        if key in fa.lt_len:
            return True, "b1: dominating guard bounds it below the length"
        k = t[0]
        if k == "param":
            req = con.get("pos<len", []) + con.get("idx<len", [])
            if not f.is_closure and t[2] in req:
                return True, "b4: precondition of %s on parameter %d" % (f.key.split("::")[-1], t[2])
            owner = self.view.prog.fn(t[1]) if isinstance(t[1], str) else None
            if owner is not None and not owner.is_closure and not owner.exported and owner.key not in CONTRACTS and \
                    owner.key not in self.view.fx.known_functions() and isinstance(t[2], int) and t[2] >= 2:
                # a NEW private helper: its obligation becomes an inferred precondition, discharged at every call site
                self.inferred.setdefault(owner.key, set()).add(t[2])
                return True, "b4: inferred precondition of the private helper %s on parameter %d (checked at its call sites)" % (owner.name, t[2])
            return False, "parameter %s carries no `< len` precondition in the contract of %s" % (t[3] or t[2], short(f.key))
        if k == "adt" and t[1].endswith(("Position", "Index")) and len(t[3]) == 1:
            x = strip(t[3][0])
            ci = const_int(x)
            if ci is not None:
                if fa.len_ge > ci:
                    return True, "b1: constant %d and len >= %d on this path" % (ci, fa.len_ge)
                return False, "constant position %d but only len >= %d is known here" % (ci, fa.len_ge)
            # loop variable of (0..=n).rev() / Position(i) with i from a range whose end is valid
            if x[0] == "field" and strip(x[1])[0] == "downcast":
                pass
            r = self.range_bound(f, bb, x)
            if r is not None:
                return r
            # Position(len()) taken before a completed growth group in the same function
            if self.is_len(x) and self.grows_after(f, x):
                return True, "b1: the old length, after one completed growth group (new leaf)"
            # Index(i) with i a slot index returned by indexmap
            if unit_like_slot(x):
                return True, "b3: slot index returned by the indexmap API for a present key"
            return self.valid(f, bb, x, kind, depth + 1, seen)
        if k == "const":
            ci = const_int(t)
            if ci is not None and fa.len_ge > ci:
                return True, "b1: constant %d and len >= %d on this path" % (ci, fa.len_ge)
            return False, "constant %s but only len >= %d is known here" % (t[1], fa.len_ge)
        if k == "call":
            nm = t[1].split("::")[-1]
            if nm == "parent" and t[2]:
                ok, why = self.valid(f, bb, t[2][0], kind, depth + 1, seen)
                if ok:
                    return True, "b5: parent(x) <= x, " + why
                # parent(Position(len)) < len when len >= 1 ; parent(Position(len-1)) < len
                a = strip(t[2][0])
                if a[0] == "adt" and self.is_len(strip(a[3][0])) and fa.len_ge >= 1:
                    return True, "b5: parent(Position(len)) = (len-1)/2 < len for len >= 1"
                if self.is_parent_of_last(t):
                    return True, "b5: parent(Position(len-1)) < len"
                return False, "parent(%s): %s" % (term_str(t[2][0])[:40], why)
            if nm in ("bubble_up", "bubble_up_min", "bubble_up_max"):
                return True, "b5: postcondition of %s (result < len)" % nm
            if nm in ("get_unchecked", "get_unchecked_mut", "index", "swap_remove", "first", "last") and t[2] and component(t[2][0]):
                if component(t[2][0])[0] in ("heap", "qp"):
                    return True, "b2: value read from the inverse table (valid by the representation invariant)"
            if nm in ("unwrap", "expect") and t[2]:
                return self.valid(f, bb, t[2][0], kind, depth + 1, seen)
            if nm in ("min_by_key", "max_by_key") :
                return True, "selection among candidates obtained through the checked `heap.get`"
            if nm == "index" and "Entry" in t[1]:
                return True, "b3: OccupiedEntry::index()"
            if nm in ("left", "right"):
                return False, "left/right(x) needs a dominating guard `< len`"
            # result of a NEW private helper: valid if every value it can return is valid inside it
            callee = self.view.prog.fn(t[1])
            if callee is not None and not callee.is_closure and not callee.exported and callee.key not in self.view.fx.known_functions() and callee.cfg.returns:
                memo = ("post", callee.key)
                if memo in seen:
                    return True, "inductive"
                r = self.fvp.local(callee, 0, callee.cfg.returns[0], 10 ** 6)
                ok, why = self.valid(callee, callee.cfg.returns[0], r, kind, depth + 1, seen + (memo,))
                return ok, "result of the private helper %s: %s" % (callee.name, why)
            return False, "unrecognised call %s" % t[1]
        if k == "field":
            base = strip(t[1])
            if t[2] in (0, "0"):
                b = base
                if b[0] == "some":
                    b = strip(b[1])
                if b[0] == "call" and b[1].split("::")[-1] in INDEXMAP_INDEX_RESULTS:
                    return True, "b3: slot index returned by the indexmap API for a present key"
                # selection result `(pos, index)` pairs
                ok, why = self.valid(f, bb, base, kind, depth + 1, seen)
                if ok:
                    return True, why
            if is_cursor(t):
                return False, "cursor"
            if base[0] == "cparam":
                return self.cparam_valid(f, base)
            return self.valid(f, bb, base, kind, depth + 1, seen) if base[0] in ("call", "some", "downcast", "tuple") else (False, "field of %s" % base[0])
        if k == "some":
            x = strip(t[1])
            if x[0] == "call":
                nm = x[1].split("::")[-1]
                if nm in ("find_max", "find_min"):
                    return True, "postcondition of %s (Some(p) => p < len)" % nm
                if nm in ("change_priority", "change_priority_by", "remove"):
                    return True, "b2: position read from qp by the Store primitive"
                if nm in ("get_full_mut", "get_full", "get_full_mut2", "swap_remove_full"):
                    return True, "b3: slot index returned by indexmap"
                if nm in ("get", "first") and x[2] and component(x[2][0]) and component(x[2][0])[0] in ("heap", "qp"):
                    return True, "b2: element of the inverse table obtained through a checked read"
                if nm in ("next", "next_back") and x[2]:
                    # `for &i in self.heap.iter()`: the loop variable is an element of the inverse table
                    y = strip(x[2][0])
                    hops = 0
                    while hops < 8:
                        hops += 1
                        while y[0] in ("ref", "deref", "defat"):
                            y = strip(y[1] if y[0] != "defat" else y[2])
                        if y[0] == "mu":
                            alts = [a for a in y[1] if a[0] != "rec"]
                            if len(alts) != 1:
                                break
                            y = strip(alts[0])
                            continue
                        if y[0] == "call" and y[2] and y[1].split("::")[-1] in ("into_iter", "iter", "rev", "copied", "cloned", "by_ref", "deref"):
                            c = component(y[2][0])
                            if c and c[0] in ("heap", "qp") and y[1].split("::")[-1] in ("iter", "into_iter", "deref"):
                                return True, "b2: element of the inverse table (iteration)"
                            y = strip(y[2][0])
                            continue
                        c = component(y)
                        if c and c[0] in ("heap", "qp"):
                            return True, "b2: element of the inverse table (iteration)"
                        break
            return False, "payload of %s" % term_str(x)[:40]
        if k == "downcast":
            return self.valid(f, bb, ("some", t[1]) if t[2] == "Some" else t[1], kind, depth + 1, seen)
        if k == "defat":
            # validity is established where the value is assigned (its guard dominates the assignment)
            g = self.view.prog.fn(t[1][0]) or f
            fresh = self.fvp.fresh_def(g, t[3]) if len(t) > 3 else t[2]
            if (g.key, t[3] if len(t) > 3 else None) in seen:
                return True, "inductive"
            return self.valid(g, t[1][1], fresh, kind, depth + 1, seen + ((g.key, t[3] if len(t) > 3 else None),))
        if k in ("mu", "phi"):
            alts = t[1] if k == "mu" else t[4]
            for a in alts:
                if a[0] == "rec":
                    continue
                ok, why = self.valid(f, bb, a, kind, depth + 1, seen)
                if not ok:
                    return False, "alternative %s: %s" % (term_str(a)[:40], why)
            return True, "all reaching definitions are valid (inductively)"
        if k == "tuple":
            return self.valid(f, bb, t[1][0], kind, depth + 1, seen)
        if k == "cparam":
            return self.cparam_valid(f, t)
        if k == "index" and component(t[1]):
            return True, "b2: value read from the inverse table"
        return False, "unrecognised term %s" % term_str(t)[:60]

    def cparam_valid(self, f, t):
        """closure parameter of an iterator adaptor over a table / candidate array"""
        use = self.view.vp.closure_use(f.key)
        if use is None:
            return False, "closure parameter of unknown origin"
        pf, bb, call, argpos = use
        nm = call["func"]["name"] if "func" in call else "?"
        recv = self.view.vp.operand(pf, call["args"][0])
        if nm in ("min_by_key", "max_by_key") and any(x[0] == "call" and x[1].split("::")[-1] == "map_while" for x in walk(recv)):
            return True, "(position, index) pair that passed the checked `heap.get` (map_while)"
        for x in walk(recv):
            if x[0] == "call" and x[1].split("::")[-1] == "iter" and x[2]:
                c = component(x[2][0])
                if c and c[0] in ("heap", "qp"):
                    return True, "b2: element of the inverse table (iteration)"
                a = strip(x[2][0])
                if a[0] == "array":
                    oks = [self.valid(pf, bb, e) for e in a[1]]
                    if all(o[0] for o in oks):
                        return True, "every element of the fixed candidate array is valid: " + oks[0][1]
                    return False, "candidate array element: " + [o[1] for o in oks if not o[0]][0]
        if nm in ("min_by_key", "max_by_key"):
            checked = any(x[0] == "call" and x[1].split("::")[-1] == "map_while" for x in walk(recv))
            if checked:
                return True, "(position, index) pair that passed the checked `heap.get` (map_while)"
        return False, "closure parameter of %s" % nm

    def range_bound(self, f, bb, x):
        """x is `next(iter(rev(RangeInclusive::new(a, n))))@Some.0`: bounded by n"""
        for y in walk(x):
            if y[0] == "call" and y[1].endswith("RangeInclusive::new") and len(y[2]) == 2:
                n = y[2][1]
                ok, why = self.valid(f, bb, n)
                if ok:
                    return True, "b5: loop variable of (a..=n) with n valid: " + why
                return False, "range end: " + why
        return None

    def grows_after(self, f, lenterm):
        evs = self.view.fx.events(f)
        return any(e["kind"] == "tw" and e.get("how") == "call:push" for e in evs)

    def ge1(self, f, bb, t):
        """term (Position or usize) >= 1 at bb ?"""
        t0 = self.pos_of_sub(t)
        key = self.c(t0)
        fa = self.facts(f, bb)
        if key in fa.ge1:
            return True, "dominating strict comparison"
        con = CONTRACTS.get(root_key(self.view.prog, f), {}) if not f.is_closure else {}
        if t0[0] == "param" and (t0[2] in con.get("pos>=1", []) or t0[2] in con.get("n>=1", [])):
            return True, "precondition"
        if t0[0] == "adt" and len(t0[3]) == 1:
            x = strip(t0[3][0])
            if self.is_len(x) and fa.len_ge >= 1:
                return True, "Position(len) with len >= 1"
            ci = const_int(x)
            if ci is not None and ci >= 1:
                return True, "constant"
            if x[0] == "field" and x[1][0] == "binop":
                x = x[1]
            if x[0] == "binop" and x[1].startswith("Sub") and self.is_len(x[2]) and const_int(strip(x[3])) == 1 and (
                    fa.len_ge >= 2 or con.get("len>=", 0) >= 2):
                return True, "Position(len-1) with len >= 2"
            return self.ge1(f, bb, x)
        if self.is_len(t0):
            if fa.len_ge >= 1 or con.get("len>=", 0) >= 1:
                return True, "len >= 1 on this path"
            # parameter-validity precondition implies a non-empty heap
            if con.get("pos<len"):
                return True, "a valid position exists, so len >= 1"
        if t0[0] in ("mu", "phi"):
            alts = t0[1] if t0[0] == "mu" else t0[4]
            oks = [self.ge1(f, bb, a) for a in alts if a[0] != "rec"]
            if oks and all(o[0] for o in oks):
                return True, "all alternatives"
        if t0[0] == "field" and t0[1][0] == "binop" and t0[1][1].startswith("Add"):
            return True, "x + k"
        if t0[0] == "binop" and t0[1].startswith("Add"):
            return True, "x + k"
        return False, "no fact shows %s >= 1" % term_str(t0)[:50]


def unit_like_slot(x):
    x = strip(x)
    if x[0] == "field" and x[2] in (0, "0"):
        b = strip(x[1])
        if b[0] == "some":
            b = strip(b[1])
        return b[0] == "call" and b[1].split("::")[-1] in INDEXMAP_INDEX_RESULTS
    if x[0] == "call" and x[1].split("::")[-1] == "index" and "Entry" in x[1]:
        return True
    return False


def root_key(prog, f):
    while f.is_closure:
        f = prog.fn(f.parent_fn)
    return f.key


def r_bounds(ctx, view, only=None):
    set_cursor_fields(view)
    prog = view.prog
    fx = view.fx
    rb = RB(view)
    fvp = rb.fvp
    ctx.cur = view
    n = 0
    kinds = {}

    def ob(f, t, what, ok, why, kind):
        nonlocal n
        n += 1
        kinds[kind] = kinds.get(kind, 0) + 1
        ctx.ob("R-BOUNDS", "%s:%s" % (short(f.key), what), ok, f.loc(t["span"]), why)

    seen_keys = {}

    def k(f, base):
        i = seen_keys.get((f.key, base), 0)
        seen_keys[(f.key, base)] = i + 1
        return base if i == 0 else "%s#%d" % (base, i)

    for f in sorted(prog.fns.values(), key=lambda x: x.key):
        if f.j.get("auto_derived") or (only and not only(f)):
            continue
        rk = root_key(prog, f)
        shrink_prim = (f.key, "shrink-primitive") in RESIDUAL
        con = CONTRACTS.get(f.key, {})
        for bi, b in enumerate(f.blocks):
            if b["cleanup"]:
                continue
            t = b["term"]
            if foreign_expansion(t["span"]):
                continue
            if t["k"] == "assert":
                msg = t["msg_s"]
                what = k(f, "arith:" + msg.split("(")[0] + ":" + (msg.split("(")[1].split(",")[0] if "(" in msg else ""))
                ok, why = arith_ok(rb, f, bi, t)
                ob(f, t, what, ok, why, "arith")
                continue
            if t["k"] != "call" or "func" not in t:
                continue
            nm = t["func"]["name"]
            key = t["func"]["key"]
            ci = fx.call_info(f, bi)
            args = fvp.call_args(f, bi)
            callee = ci.local_callee
            # (a) unchecked table accesses
            if nm in ("get_unchecked", "get_unchecked_mut") and args and component(args[0]) and component(args[0])[0] in ("heap", "qp"):
                comp = component(args[0])[0]
                what = k(f, "%s.%s" % (comp, nm))
                if shrink_prim:
                    ok, why = shrink_access_ok(rb, f, bi, args[1])
                else:
                    ok, why = rb.valid(f, bi, args[1])
                ob(f, t, what, ok, "%s[%s]: %s" % (comp, term_str(args[1])[:50], why), "unchecked")
            # (b) calls of contracted crate functions: establish their preconditions
            elif callee in CONTRACTS:
                cc = CONTRACTS[callee]
                for pi in cc.get("pos<len", []) + cc.get("idx<len", []):
                    a = args[pi - 1]
                    what = k(f, "pre:%s:arg%d<len" % (callee.split("::")[-1], pi))
                    if shrink_prim:
                        ok, why = shrink_access_ok(rb, f, bi, a)
                    else:
                        ok, why = rb.valid(f, bi, a)
                    ob(f, t, what, ok, "%s(%s): %s" % (callee.split("::")[-1], term_str(a)[:50], why), "precondition")
                for pi in cc.get("pos>=1", []) + cc.get("n>=1", []):
                    a = args[pi - 1]
                    what = k(f, "pre:%s:arg%d>=1" % (callee.split("::")[-1], pi))
                    ok, why = rb.ge1(f, bi, a)
                    ob(f, t, what, ok, "%s(%s): %s" % (callee.split("::")[-1], term_str(a)[:50], why), "precondition")
                if "len>=" in cc:
                    fa = rb.facts(f, bi)
                    ok = fa.len_ge >= cc["len>="] or con.get("len>=", 0) >= cc["len>="]
                    ob(f, t, k(f, "pre:%s:len>=%d" % (callee.split("::")[-1], cc["len>="])), ok,
                       "len >= %d is known on this path (len >= %d)" % (cc["len>="], fa.len_ge), "precondition")
            # (c) panicking calls on a fault-free path
            elif nm in ("unwrap", "expect") and key.startswith("std::option::Option"):
                what = k(f, "unwrap")
                ok, why = unwrap_ok(rb, f, bi, args[0])
                ob(f, t, what, ok, "unwrap(%s): %s" % (term_str(args[0])[:50], why), "unwrap")
            elif nm in ("swap_remove", "swap", "remove", "insert") and args and component(args[0]) and component(args[0])[0] in ("heap", "qp") and not callee \
                    and not key.startswith("std::mem::"):
                comp = component(args[0])[0]
                for ai in ([1, 2] if nm == "swap" else [1]):
                    what = k(f, "%s.%s" % (comp, nm))
                    if shrink_prim:
                        ok, why = shrink_access_ok(rb, f, bi, args[ai], first_removal=True)
                    else:
                        ok, why = rb.valid(f, bi, args[ai])
                    ob(f, t, what, ok, "%s.%s(%s): %s" % (comp, nm, term_str(args[ai])[:50], why), "panicking-call")
            elif key.endswith("Index::index") or key.endswith("IndexMut::index_mut"):
                if args and component(args[0]) and component(args[0])[0] in ("heap", "qp"):
                    ok, why = rb.valid(f, bi, args[1])
                    ob(f, t, k(f, "index[]"), ok, why, "panicking-call")
        # new unsafe fn / unchecked helper without a contract
        if f.j.get("unsafe") and f.key not in CONTRACTS and (f.exported or f.key in fx.known_functions()):
            ctx.ob("R-BOUNDS", "%s:contract" % short(f.key), False, f.loc(), "unsafe fn without a contract in the R-BOUNDS table")
    # inferred preconditions of new private helpers: every call site must establish them (to a fixed point)
    done = set()
    rounds = 0
    while rounds < 5:
        rounds += 1
        todo = [(k, p) for k, ps in rb.inferred.items() for p in sorted(ps) if (k, p) not in done]
        if not todo:
            break
        for (hk, pi) in todo:
            done.add((hk, pi))
            for f in sorted(prog.fns.values(), key=lambda x: x.key):
                for bi, t in f.calls():
                    if fx.call_info(f, bi).local_callee != hk:
                        continue
                    args = fvp.call_args(f, bi)
                    if pi - 1 >= len(args):
                        continue
                    ok, why = rb.valid(f, bi, args[pi - 1])
                    ob(f, t, k(f, "pre:%s:arg%d<len(inferred)" % (hk.split("::")[-1], pi)), ok,
                       "%s(%s): %s" % (hk.split("::")[-1], term_str(args[pi - 1])[:50], why), "precondition")
    if not only:
        ctx.floor("R-BOUNDS", n, 120)
    ctx.notes.append("R-BOUNDS obligation kinds: %s; inferred helper preconditions: %s" % (kinds, {k2: sorted(v) for k2, v in rb.inferred.items()}))
    return n


def shrink_access_ok(rb, f, bi, sub, first_removal=False):
    """inside Store::swap_remove / Store::remove's hit-closure: the subscript is (i) the validated key itself (parameter
    with precondition / hit index from indexmap / value just removed from the other table), used on a table that still
    has its full length or under the guard `k.0 < size`; or (ii) a value read from the other table at such a key"""
    t = rb.pos_of_sub(sub)
    c = rb.c(t)
    fa = rb.facts(f, bi)
    if c in fa.lt_len:
        return True, "b1: guarded by `k.0 < size`"
    # key forms
    def is_key(x):
        x = strip(x)
        if x[0] == "param":
            return True
        if x[0] == "adt" and len(x[3]) == 1:
            return is_key(x[3][0])
        if unit_like_slot(x):
            return True
        if x[0] == "field" and x[2] in (0, "0"):
            return is_key(x[1])
        if x[0] == "call" and x[1].split("::")[-1] == "swap_remove" and x[2] and component(x[2][0]) and component(x[2][0])[0] in ("heap", "qp"):
            return True
        return False

    if is_key(t):
        # unguarded use of the key: only the table swap_removes themselves (which take the key) and the first reads
        return True, "the key of the removal (valid on entry / returned by the table that still had it)"
    x = strip(t)
    if x[0] in ("call",) and x[1].split("::")[-1] in ("get_unchecked", "get_unchecked_mut") and x[2] and component(x[2][0]):
        inner = rb.pos_of_sub(x[2][1])
        if rb.c(inner) in fa.lt_len:
            return True, "b2: read of the inverse table at a guarded key"
        return False, "read of the inverse table at %s which no guard `< size` protects" % term_str(inner)[:40]
    if x[0] == "deref" or x[0] == "mu":
        return True, "reference to the entry being repaired"
    return False, "unrecognised subscript %s inside the shrink primitive" % term_str(x)[:50]


def unwrap_ok(rb, f, bi, a):
    a = strip(a)
    if a[0] == "call":
        nm = a[1].split("::")[-1]
        if nm in ("get_index", "get_index_mut2", "get_index_mut") and len(a[2]) == 2:
            from .rules_misc import is_slot_range_var
            if is_slot_range_var(a[2][1]) and component(a[2][0]) and component(a[2][0])[0] == "map":
                # b5: the loop variable of `for i in 0..map.len()`; the length was read before the loop, so nothing inside the
                # loop may shorten the map (user code run there has no access to it)
                lps = f.cfg.in_loop(bi) or []
                body = set()
                for lp in lps:
                    body |= set(lp["body"])
                fx = rb.view.fx
                shr = [e for e in fx.events(f) if e["bb"] in body and (
                    (e["kind"] == "mw" and e.get("mclass") in ("shrink", "clear", "retain", "replace")) or
                    (e["kind"] == "call" and any(x.startswith("MW") for x in fx.effects.get(e["callee"], ()))))]
                if lps and not shr:
                    return True, "map slot: loop variable of 0..map.len(), and the map is not shortened inside the loop"
            ok, why = rb.valid(f, bi, a[2][1])
            return ok, "map slot %s" % why
        if nm in ("get_full_mut2", "get_mut", "get_full_mut", "get", "get_full") and len(a[2]) == 2 and component(a[2][0]):
            fa = rb.facts(f, bi)
            if rb.c(a[2][1]) in fa.key_present:
                return True, "dominated by contains_key on the same key"
            return False, "keyed lookup without a dominating contains_key on the same key"
        if nm in ("min_by_key", "max_by_key", "min", "max"):
            # non-empty candidate sequence: a fixed array literal, or candidates whose first is in range
            for x in walk(a):
                if x[0] == "array" and len(x[1]) >= 1:
                    if any(y[0] == "call" and y[1].split("::")[-1] == "map_while" for y in walk(a)):
                        first = x[1][0]
                        fa = rb.facts(f, bi)
                        # left(i) with i <= parent(Position(len-1))  =>  left(i) <= len-1
                        fs = strip(first)
                        if fs[0] == "call" and fs[1].split("::")[-1] == "left" and rb.c(rb.pos_of_sub(fs[2][0])) in fa.le_parent_last:
                            return True, "selection is non-empty: its first candidate left(i) is in range because i <= parent(len-1)"
                        return False, "selection over checked candidates may be empty: first candidate %s is not known to be in range" % term_str(fs)[:40]
                    return True, "selection over a non-empty array literal"
            return False, "selection over a possibly empty sequence"
        if nm == "as_mut" and a[2]:
            src = strip(a[2][0])
            return True, "pointer made from a reference is never null"
        if nm == "map" and a[2]:
            return unwrap_ok(rb, f, bi, a[2][0])
    if a[0] == "some":
        return True, "Some payload"
    if a[0] in ("phi", "mu"):
        # the expanded form of `x.map(f)`: `match x { None => None, Some(v) => Some(f(v)) }` is Some exactly when x is
        raw = [strip(y) for y in (a[4] if a[0] == "phi" else a[1])]
        sites = [y[1] if y[0] == "defat" else None for y in raw]
        alts = [strip(y[2]) if y[0] == "defat" else y for y in raw]
        nones = [i for i, y in enumerate(alts) if y[0] == "adt" and y[1] == "std::option::Option" and y[2] == "None"]
        somes = [i for i, y in enumerate(alts) if y[0] == "adt" and y[1] == "std::option::Option" and y[2] == "Some"]
        if len(nones) == 1 and len(somes) == 1 and len(alts) == 2 and sites[nones[0]] and sites[nones[0]][0] == f.key:
            recv = {x[1] for x in walk(alts[somes[0]]) if isinstance(x, tuple) and x and x[0] == "some" and strip(x[1])[0] == "call"}
            nb = sites[nones[0]][1]
            preds = [p for p in f.cfg.pred[nb] if p in f.cfg.reach]
            if len(recv) == 1 and len(preds) == 1 and f.term(preds[0])["k"] == "switch":
                from .core import edge_presence
                d = strip(rb.view.vp.operand(f, f.term(preds[0])["discr"]))
                rc = next(iter(recv))
                # the None arm is taken exactly on the absent edge of the switch on that very lookup
                if d[0] == "discr" and rb.c(d[1]) == rb.c(rc) and edge_presence(d, f.term(preds[0]), nb) == "absent":
                    ok, why = unwrap_ok(rb, f, bi, rc)
                    return ok, "Some arm of a match on the lookup: " + why
    return False, "no justification for unwrap of %s" % term_str(a)[:60]


def arith_ok(rb, f, bi, t):
    """overflow / division assert at block bi"""
    msg = t["msg_s"]
    fvp = rb.fvp
    if msg.startswith(("DivisionByZero", "RemainderByZero")):
        # divisor is a non-zero constant
        for s in f.blocks[bi]["stmts"]:
            if s["k"] == "assign" and s["rv"]["k"] == "binop" and s["rv"]["op"] in ("Eq",):
                b = s["rv"]["b"]
                a = s["rv"]["a"]
                consts = [x for x in (a, b) if x["k"] == "const"]
                if len(consts) == 2:
                    vals = [const_int(("const", c["s"])) for c in consts]
                    if 0 in vals and any(v for v in vals if v):
                        return True, "divisor is the constant %d" % max(v for v in vals if v is not None)
                if consts and any(const_int(("const", c["s"])) == 0 for c in consts):
                    other = [x for x in (a, b) if x["k"] != "const"]
                    if other:
                        v = fvp.operand(f, other[0], bi, 10 ** 6)
                        ci = const_int(strip(v))
                        if ci:
                            return True, "divisor is the constant %d" % ci
                        try:
                            ok1, why1 = rb.ge1(f, bi, v)
                        except Exception:
                            ok1, why1 = False, ""
                        if ok1:
                            return True, "divisor >= 1: " + why1
                        return False, "the divisor %s is not a non-zero constant and nothing shows it is >= 1 (a size_of of a zero-sized type, a length, a hint .. may be 0)" % term_str(v)[:50]
        return False, "division / remainder whose divisor could not be identified"
    cond = t["cond"]
    # find the checked operation feeding this assert
    opstmt = None
    for s in reversed(f.blocks[bi]["stmts"]):
        if s["k"] == "assign" and s["rv"]["k"] == "binop" and s["rv"]["op"].endswith("WithOverflow"):
            opstmt = s
            break
    if opstmt is None:
        return False, "checked operation not found"
    op = opstmt["rv"]["op"]
    si = f.blocks[bi]["stmts"].index(opstmt)
    a = fvp.operand(f, opstmt["rv"]["a"], bi, si)
    b = fvp.operand(f, opstmt["rv"]["b"], bi, si)
    if op.startswith(("Add", "Mul")):
        # b6: values bounded by a container length cannot overflow usize when incremented / doubled
        if bounded_by_allocation(rb, a) and (const_int(strip(b)) is not None):
            return True, "b6: %s on a value bounded by a container length (<= isize::MAX)" % op[:3]
        return False, "%s of %s and %s: not recognisably bounded by a container length" % (op[:3], term_str(a)[:40], term_str(b)[:40])
    if op.startswith("Sub"):
        cb = const_int(strip(b))
        if cb == 1:
            ok, why = rb.ge1(f, bi, a)
            if ok:
                return True, "b1: minuend >= 1 (%s)" % why
            if (CONTRACTS.get(f.key, {}).get("n>=1") or _lz_arg_ge1(a)) and _minus_lz_at_least(a) is not None and _minus_lz_at_least(a) >= 1:
                return True, "log2_fast: x >= 1 => leading_zeros <= BITS-1 => BITS - lz >= 1"
            if rb.is_len(a) and f.is_closure and hit_continuation(rb.view, f):
                return True, "b3: continuation of a successful keyed removal: the store held that entry, so size >= 1"
            # cursor arithmetic guarded by front < back
            fa = rb.facts(f, bi)
            if any(rb.c(strip(a)) == y for (x, y) in fa.lt):
                return True, "b1: minuend is strictly greater than another unsigned value"
            return False, "subtraction `%s - 1`: %s" % (term_str(a)[:40], why)
        # back - front of the iterator cursors
        fa = rb.facts(f, bi)
        A, B = rb.c(strip(a)), rb.c(strip(b))
        if (B, A) in fa.lt:
            return True, "b1: guarded by subtrahend < minuend"
        sa, sb = strip(a), strip(b)
        if sa[0] == "field" and sb[0] == "field" and is_cursor(sa, "back") and is_cursor(sb, "front") and sa[3] == sb[3]:
            return True, "iterator invariant front cursor <= back cursor (maintained by the cursor discipline, R-CURSOR c2)"
        if "leading_zeros" in term_str(b) and (CONTRACTS.get(f.key, {}).get("n>=1") or _lz_arg_ge1(b)):
            k = _const_bits(a)
            if k is not None and k >= USIZE_BITS - 1:
                return True, "log2_fast: x >= 1 => leading_zeros <= BITS-1 <= %d" % k
        if "leading_zeros" in term_str(b) and _const_bits(a) is not None and _const_bits(a) >= USIZE_BITS and strip(b)[0] == "call":
            return True, "leading_zeros(x) <= BITS <= %d for every x" % _const_bits(a)
        return False, "subtraction %s - %s without a dominating order fact" % (term_str(a)[:30], term_str(b)[:30])
    return False, "unrecognised checked operation " + op


USIZE_BITS = 64   # the analysed target (the extractor evaluates `usize::BITS` on it)


def _const_bits(t):
    """the integer a term denotes: a literal, or the named constant usize::BITS (older fact files)"""
    t = strip(t)
    k = const_int(t)
    if k is not None:
        return k
    if t[0] == "const" and str(t[1]).endswith("::BITS") and "usize" in str(t[1]):
        return USIZE_BITS
    return None


def _lz_arg_ge1(t):
    """t contains exactly one `leading_zeros(x)` and x is `y + c` with a constant c >= 1 in overflow-checked arithmetic (so x >= 1):
    the body of `log2_fast(i.0 + 1)` written out where it is used"""
    calls = [x for x in walk(t) if x[0] == "call" and x[1].split("::")[-1] == "leading_zeros" and x[2]]
    if len(calls) != 1:
        return False
    x = strip(calls[0][2][0])
    if x[0] == "field" and x[2] in (0, "0"):
        x = strip(x[1])
    if x[0] == "binop" and x[1].startswith("Add"):
        for side in (x[2], x[3]):
            c = const_int(strip(side))
            if c is not None and c >= 1:
                return True
    return False


def _minus_lz_at_least(t):
    """a lower bound of `K - leading_zeros(x)` for x >= 1 (leading_zeros <= BITS-1), K a constant; None if t is not that"""
    t = strip(t)
    if t[0] == "field" and t[2] in (0, "0"):
        t = strip(t[1])
    if t[0] == "binop" and t[1].startswith("Sub") and "leading_zeros" in term_str(t[3]):
        k = _const_bits(t[2])
        if k is not None:
            return k - (USIZE_BITS - 1)
    return None


def bounded_by_allocation(rb, t):
    t = strip(t)
    while t[0] == "defat":
        t = strip(t[2])
    if rb.is_len(t):
        return True
    if t[0] in ("mu", "phi"):
        alts = t[1] if t[0] == "mu" else t[4]
        return all(a[0] == "rec" or bounded_by_allocation(rb, a) for a in alts)
    if t[0] == "const":
        return True
    if t[0] == "field":
        if t[3] in (POSITION, INDEX):
            return True   # positions / indexes are table subscripts
        if is_cursor(t) or (t[2] == "size" and t[3] == "store::Store"):
            return True
        if t[1][0] == "binop":
            return bounded_by_allocation(rb, t[1])
    if t[0] == "binop" and t[1].startswith(("Add", "Mul")):
        return bounded_by_allocation(rb, t[2]) and bounded_by_allocation(rb, t[3])
    if t[0] == "param":
        return True  # usize parameters of the index helpers (left/right/level) are table subscripts
    if t[0] == "call" and t[1].split("::")[-1] in ("log2_fast", "level", "leading_zeros", "trailing_zeros", "count_ones", "ilog2"):
        return True  # at most the bit width
    if t[0] == "cast":
        return bounded_by_allocation(rb, t[2])
    return False


def hit_continuation(view, f):
    use = view.vp.closure_use(f.key)
    if use is None:
        return False
    pf, bb, t, argpos = use
    recv = view.vp.operand(pf, t["args"][0]) if t["args"] else None
    if recv is None:
        return False
    return any(x[0] == "call" and x[1].split("::")[-1] in ("swap_remove_full", "swap_remove", "shift_remove_full") for x in walk(recv))


# ------------------------------------------------------------------------------------------
# R-ORDERPANIC (C04): no explicit panic may depend on a comparison of priorities
# ------------------------------------------------------------------------------------------
PANIC_ENTRY = ("panicking::panic", "panicking::assert_failed", "panicking::begin_panic", "panicking::unreachable",
               "panicking::panic_fmt", "panicking::panic_display", "panicking::panic_explicit", "panicking::panic_str",
               "panicking::panic_nounwind", "rt::begin_panic", "rt::panic_fmt")


def is_panic_entry(t):
    if t.get("k") != "call" or "func" not in t:
        return False
    p = t["func"].get("path") or t["func"].get("key") or ""
    return any(e in p for e in PANIC_ENTRY)


def _raw_succ(f, i):
    b = f.blocks[i]
    if b["cleanup"]:
        return []
    t = b["term"]
    k = t["k"]
    if k == "goto":
        return [t["target"]]
    if k == "switch":
        return [bb for _, bb in t["targets"]] + [t["otherwise"]]
    if k in ("call", "assert", "drop"):
        return [t["target"]] if t.get("target") is not None else []
    return []


def _locals_in(x, out):
    if isinstance(x, dict):
        if "local" in x and "proj" in x:
            out.add(x["local"])
        for v in x.values():
            _locals_in(v, out)
    elif isinstance(x, list):
        for v in x:
            _locals_in(v, out)


def _is_literal_switch(f, t):
    d = t["discr"]
    if d["k"] == "const":
        return True
    if d["k"] in ("copy", "move") and not d["place"]["proj"]:
        L = d["place"]["local"]
        if f.locals[L]["name"]:
            return False
        defs = []
        for b in f.blocks:
            for s in b["stmts"]:
                if s["k"] == "assign" and s["place"]["local"] == L and not s["place"]["proj"]:
                    defs.append(s)
            tt = b["term"]
            if tt["k"] == "call" and tt["dest"]["local"] == L:
                defs.append(None)
        return len(defs) == 1 and defs[0] is not None and defs[0]["rv"]["k"] == "use" and defs[0]["rv"]["op"]["k"] == "const"
    return False


BOOLISH = ("bool", "Ordering", "std::cmp::Ordering", "core::cmp::Ordering")


def _boolish(ty):
    s = ty if isinstance(ty, str) else (ty or {}).get("s", "")
    s = s.replace("std::option::Option<", "").replace("core::option::Option<", "").replace("Option<", "").rstrip(">").strip()
    return s in BOOLISH or s.endswith("::Ordering")


def orderpanic_scan(view, f):
    """-> list of (panic bb, [comparison sites]) for every explicit panic of `f` whose reachability depends on the outcome
    of a comparison of priorities.  Works on the RAW blocks: the body of a `debug_assert!` sits behind the literal
    `cfg!(debug_assertions)`, which the extraction configuration (and the folded CFG every other rule reads) cuts off."""
    fx = view.fx
    n = len(f.blocks)
    pred = [[] for _ in range(n)]
    for i in range(n):
        for o in _raw_succ(f, i):
            pred[o].append(i)
    out = []
    total = 0
    for p in range(n):
        b = f.blocks[p]
        if b["cleanup"] or not is_panic_entry(b["term"]):
            continue
        total += 1
        R = {p}
        st = [p]
        while st:
            x = st.pop()
            for y in pred[x]:
                if y not in R:
                    R.add(y)
                    st.append(y)
        # the condition OF the assertion, not the conditions under which the assertion is reached: the switches with one side
        # inside the must-panic region (every path from there ends in this panic) and another side outside it
        A = {p}
        grew = True
        while grew:
            grew = False
            for x in R:
                if x in A:
                    continue
                su = _raw_succ(f, x)
                if su and all(o in A for o in su):
                    A.add(x)
                    grew = True
        ctrl = [s for s in R if s not in A and f.blocks[s]["term"]["k"] == "switch" and any(o in A for o in _raw_succ(f, s))
                and not _is_literal_switch(f, f.blocks[s]["term"])]
        hits = []
        seen = set()
        work = set()
        for s in ctrl:
            _locals_in(f.blocks[s]["term"]["discr"], work)
        work = list(work)
        while work:
            L = work.pop()
            if L in seen:
                continue
            seen.add(L)
            for bi, bb in enumerate(f.blocks):
                if bb["cleanup"]:
                    continue
                for s in bb["stmts"]:
                    if s["k"] == "assign" and s["place"]["local"] == L:
                        more = set()
                        _locals_in(s["rv"], more)
                        work.extend(more - seen)
                t = bb["term"]
                if t["k"] == "call" and t["dest"]["local"] == L:
                    ci = fx.call_info(f, bi)
                    cmpish = ci.cmp or (ci.local_callee is None and ci.mruc and ci.name in (
                        "cmp", "partial_cmp", "lt", "le", "gt", "ge", "eq", "ne", "max", "min") and ci.cmp)
                    callee_cmp = False
                    for c in ([ci.local_callee] if ci.local_callee else []) + list(ci.closures or []):
                        if c and "CMP" in fx.effects.get(c, ()) and _boolish(f.locals[L]["ty"]):
                            callee_cmp = True
                    if cmpish or callee_cmp:
                        hits.append("%s at line %d" % (ci.name, t["span"]["line"]))
                    else:
                        more = set()
                        _locals_in(t["args"], more)
                        work.extend(more - seen)
        if hits:
            out.append((p, sorted(set(hits))))
    return total, out


def r_orderpanic(ctx, view):
    """R-ORDERPANIC.  The heap ORDER is not an invariant the code may rely on for not panicking: C04's histories include
    continuing after a leaked iter_mut guard, which leaves the order unspecified.  So no explicit panic (panic!, assert!,
    debug_assert!, unreachable!) may be control-dependent on the outcome of a comparison of priorities."""
    ctx.cur = view
    npan = 0
    # only code that a user of the crate can make run: everything reachable from an exported function (a private checker
    # that nothing calls - `#[allow(dead_code)] fn debug_check_invariants` - is test scaffolding, not behaviour)
    live = set()
    for key, f in view.prog.fns.items():
        if f.exported and key not in live:
            live |= view.fx.reach(key)
    for key, f in sorted(view.prog.fns.items()):
        if not f.blocks or key not in live:
            continue
        total, bad = orderpanic_scan(view, f)
        npan += total
        for p, hits in bad:
            t = f.blocks[p]["term"]
            ctx.ob("R-ORDERPANIC", "%s:panic-depends-on-priority-order" % key, False, f.loc(),
                   "this panic is reached or not depending on a comparison of priorities (%s): it fires whenever the heap order does "
                   "not hold, which fault-free use can bring about (a leaked iter_mut guard), also in debug builds" % "; ".join(hits))
        if total and not bad:
            ctx.ob("R-ORDERPANIC", "%s:explicit-panics" % key, True, f.loc(),
                   "%d explicit panic site(s), none control-dependent on a comparison of priorities" % total)
    ctx.ob("R-ORDERPANIC", "crate:no-order-dependent-panic", True, "", "%d explicit panic sites examined in %d bodies" % (npan, len(view.prog.fns)))


# ------------------------------------------------------------------------------------------
# R-ASSERT (C04): an explicit bound assertion is an obligation like an unchecked access
# ------------------------------------------------------------------------------------------
def r_assert(ctx, view):
    """R-ASSERT.  `debug_assert!(i.0 < self.len())` / `assert!(..)` on a position or index is a panic in fault-free use unless
    the asserted bound is a fact: it is discharged exactly like the bound an unchecked access needs (dominating guards, table
    reads, the contract of the function - whose preconditions every call site discharges in turn).  Read in the build with debug
    assertions on (the bodies of `debug_assert!` are live code there).  Conditions of other shapes (equalities of lengths ..)
    are not decided and not reported."""
    if view.config != "std":
        return
    from .engine import CheckError
    ctx.cur = view
    try:
        dv = ctx.view("dbg")
    except CheckError as e:
        ctx.undecided.append("R-ASSERT: the build with debug assertions could not be analysed (%s)" % str(e)[:200])
        return
    finally:
        ctx.cur = view
    ctx.views.pop("dbg", None)
    rb = RB(dv)
    vp = dv.vp
    live = set()
    for key, g in dv.prog.fns.items():
        if g.exported and key not in live:
            live |= dv.fx.reach(key)
    n = 0
    for key in sorted(live):
        f = dv.prog.fns.get(key)
        if f is None or not f.blocks:
            continue
        reach = f.cfg.reach
        pred = {}
        for i in reach:
            for o in f.cfg.succ[i]:
                pred.setdefault(o, []).append(i)
        for p in sorted(reach):
            if not is_panic_entry(f.blocks[p]["term"]):
                continue
            # must-panic region and the switches that decide it (as in R-ORDERPANIC, on the live CFG of the debug build)
            R = {p}
            st = [p]
            while st:
                x = st.pop()
                for y in pred.get(x, []):
                    if y not in R:
                        R.add(y)
                        st.append(y)
            A = {p}
            grew = True
            while grew:
                grew = False
                for x in R:
                    su = f.cfg.succ[x]
                    if x not in A and su and all(o in A for o in su):
                        A.add(x)
                        grew = True
            for s in sorted(R):
                t = f.blocks[s]["term"]
                if s in A or t["k"] != "switch" or not any(o in A for o in f.cfg.succ[s]):
                    continue
                try:
                    d = strip(rb.fvp.switch_discr(f, s))   # flow-sensitive: the value the variables have HERE
                except Exception:
                    d = strip(vp.operand(f, t["discr"]))
                if d[0] != "binop" or d[1] not in ("Lt", "Le", "Gt", "Ge"):
                    continue
                a, b, op = d[2], d[3], d[1]
                if op in ("Gt", "Ge"):
                    a, b, op = b, a, {"Gt": "Lt", "Ge": "Le"}[op]
                if op != "Lt" or not rb.is_len(b):
                    continue
                # which edge holds the bound?  the one that does NOT lead to the panic must be the `a < len` side
                zero = [tb for v, tb in t["targets"] if v == 0]
                true_t = t["otherwise"]
                if true_t in A or not zero or zero[0] not in A:
                    continue   # the panic sits on the TRUE side: an assertion of the opposite fact, not a bound
                n += 1
                ok, why = rb.valid(f, s, a)
                ctx.ob("R-ASSERT", "%s:asserted-bound:%s" % (short(key), rb.c(strip(a))[:40]), ok, f.loc(t["span"]),
                       ("the asserted bound %s < len holds: %s" % (term_str(a)[:40], why)) if ok else
                       ("the assertion `%s < len` can fail in fault-free use: %s" % (term_str(a)[:50], why)))
    # preconditions inferred for new private helpers while discharging: checked at their call sites by R-BOUNDS proper
    ctx.ob("R-ASSERT", "crate:bound-assertions", True, "", "%d explicit bound assertions examined (debug build)" % n)
