"""Events and effects (FX): what each statement / call site does to the Store components and
whether it may run user code, derived from types (parametricity), never from names of user items.
"""
from collections import defaultdict
from .core import VP, component, strip, walk, STORE, term_str

MARKER_PREFIX = ("std::marker::", "core::marker::")
CMP_TRAITS = {"std::cmp::PartialOrd", "std::cmp::Ord"}
EQ_TRAITS = {"std::cmp::PartialEq", "std::cmp::Eq"}
HASH_TRAITS = {"std::hash::Hash", "std::hash::BuildHasher", "std::hash::Hasher"}

# accessors that only produce a (mutable) view / element reference: the write, if any, is the later store
VIEW_NAMES = {
    "deref", "deref_mut", "as_slice", "as_mut_slice", "get_unchecked", "get_unchecked_mut", "get", "get_mut",
    "first", "first_mut", "last", "last_mut", "index", "index_mut", "iter", "iter_mut", "len", "is_empty",
    "as_ref", "as_mut", "borrow", "borrow_mut", "capacity", "as_ptr", "as_mut_ptr",
}
CAP_NAMES = {"reserve", "reserve_exact", "try_reserve", "try_reserve_exact", "shrink_to_fit", "shrink_to"}

# IndexMap API classification (by method name; receiver must be the `map` component)
MAP_GROW = {"insert", "insert_full", "insert_sorted", "insert_before", "shift_insert", "extend", "append",
            "insert_unique_unchecked", "or_insert", "or_insert_with", "or_insert_with_key", "or_default",
            "insert_entry"}
MAP_SHRINK = {"swap_remove", "swap_remove_entry", "swap_remove_full", "swap_remove_index", "shift_remove",
              "shift_remove_entry", "shift_remove_full", "shift_remove_index", "pop", "remove", "remove_entry",
              "truncate", "split_off", "swap_take", "shift_take", "take"}
MAP_CLEAR = {"clear", "drain"}
MAP_RETAIN = {"retain", "retain2", "retain_mut"}
MAP_REORDER = {"sort_keys", "sort_by", "sort_unstable_keys", "sort_unstable_by", "sort_by_cached_key", "reverse",
               "swap_indices", "move_index", "sorted_by", "sort_unstable_by_key", "sort_by_key"}
MAP_ENTRY = {"entry", "get_index_entry", "first_entry", "last_entry", "get_entry"}
MAP_VALMUT = {"get_mut", "get_full_mut", "get_index_mut", "values_mut", "iter_mut", "first_mut", "last_mut",
              "get_key_value_mut", "index_mut"}
MAP_KEYMUT = {"get_full_mut2", "get_index_mut2", "iter_mut2", "retain2", "key_mut", "insert_key", "replace_key",
              "replace_index", "replace_entry", "get_disjoint_mut2", "into_mut2", "get_mut2"}

# external callees whose declared bounds over-approximate what they run (override may only REMOVE an effect)
MRUC_OVERRIDES = {
    "<indexmap::IndexMap as MutableKeys>::get_index_mut2":
        "sits in `impl MutableKeys for IndexMap<K,V,S> where S: BuildHasher` but only indexes the entries Vec; never hashes",
    "indexmap::map::MutableKeys::get_index_mut2":
        "see above (unresolved form)",
}


# external callees some of whose declared bounds are never exercised: the named bounds are ignored, the others (the
# closure parameter!) still count
BOUND_OVERRIDES = {
    "<indexmap::IndexMap as MutableKeys>::retain2": (
        ("BuildHasher", "Hash", "Eq", "Equivalent"),
        "retain2 compacts the entries Vec and rebuilds the hash table from the STORED hashes: it never hashes or compares keys; "
        "the only user code it runs is its closure"),
    "indexmap::map::MutableKeys::retain2": (("BuildHasher", "Hash", "Eq", "Equivalent"), "see above (unresolved form)"),
}


def is_marker(trait):
    return trait.startswith(MARKER_PREFIX) or trait in ("std::ops::Drop", "core::ops::Drop", "std::marker::Destruct")


class CallInfo:
    __slots__ = ("fn", "bb", "t", "key", "name", "local_callee", "mruc", "mruc_why", "cmp", "eq", "hash",
                 "closures", "user_call", "unsafe_callee", "override", "krate", "args_vp", "span")

    def loc(self):
        return "%s:%d" % (self.span["file"], self.span["line"])


class FX:
    def __init__(self, prog, vp=None):
        self.prog = prog
        self.vp = vp or VP(prog)
        self._calls = {}
        self._events = {}
        self.overrides_used = {}
        self._eff = None

    # ---- call-site classification --------------------------------------------------------
    def call_info(self, fn, bb):
        k = (fn.key, bb)
        if k in self._calls:
            return self._calls[k]
        t = fn.term(bb)
        ci = CallInfo()
        ci.fn, ci.bb, ci.t = fn, bb, t
        ci.span = t["span"]
        ci.closures = []
        ci.mruc = False
        ci.mruc_why = []
        ci.cmp = ci.eq = ci.hash = False
        ci.user_call = False
        ci.local_callee = None
        ci.override = None
        ci.args_vp = None
        if "func" not in t:
            # indirect call through a value (fn pointer / closure value): treat as user code
            ci.key = "<indirect>"
            ci.name = "<indirect>"
            ci.krate = None
            ci.unsafe_callee = False
            ci.mruc = True
            ci.mruc_why.append("indirect call")
            self._calls[k] = ci
            return ci
        f = t["func"]
        ci.key = f["key"]
        ci.name = f["name"]
        ci.krate = f["krate"]
        ci.unsafe_callee = bool(f.get("unsafe"))
        res = f.get("resolved")
        target = None
        if f.get("local") and f["key"] in self.prog.fns and not f.get("trait"):
            target = f["key"]
        if res and res.get("local") and res["key"] in self.prog.fns:
            target = res["key"]
        ci.local_callee = target
        preds = None
        if res and res.get("preds") is not None:
            preds = res["preds"]
            # a resolved *default* method still carries `Self: Trait`; keep it (Self may hide closures)
        else:
            preds = f.get("preds") or []
        unresolved_trait_call = bool(f.get("trait")) and not res
        if target is None:
            ign = ()
            for kk in ((res or {}).get("key"), f["key"]):
                if kk in BOUND_OVERRIDES:
                    ign = BOUND_OVERRIDES[kk][0]
                    self.overrides_used[kk] = BOUND_OVERRIDES[kk][1]
            for p in preds:
                if p["kind"] != "trait":
                    continue
                tr = p["trait"]
                if is_marker(tr):
                    continue
                if ign and tr.split("::")[-1] in ign:
                    continue
                sp = p["self_params"]
                allp = p["params"]
                real = [x for x in sp if not x.startswith("closure:")]
                cls = [x[len("closure:"):] for x in allp if x.startswith("closure:")]
                # a bound on a crate-local type is discharged by a crate impl: follow that impl's
                # methods (crate code, analysed like any other callee) instead of calling it user code
                limpl = self.local_impl_methods(p)
                if limpl is not None:
                    for m in limpl:
                        if m not in ci.closures:
                            ci.closures.append(m)
                    real = []
                for c in cls:
                    if c not in ci.closures:
                        ci.closures.append(c)
                if real:
                    ci.mruc = True
                    ci.mruc_why.append(p["s"])
                    if tr in CMP_TRAITS:
                        ci.cmp = True
                    if tr in EQ_TRAITS:
                        ci.eq = True
                    if tr in HASH_TRAITS:
                        ci.hash = True
            if unresolved_trait_call:
                st = f.get("self_ty", {})
                ci.user_call = True
                if not ci.mruc:
                    ci.mruc = True
                    ci.mruc_why.append("unresolved trait call %s on %s" % (f["trait"], st.get("s")))
                if f["trait"] in CMP_TRAITS:
                    ci.cmp = True
            # closure arguments passed by value even without a Fn bound in preds
            for a in t["args"]:
                if a["k"] in ("copy", "move"):
                    ty = fn.local_ty(a["place"]["local"]) if not a["place"]["proj"] else None
                    if ty and ty.get("k") == "closure" and ty["def"] not in ci.closures:
                        ci.closures.append(ty["def"])
                elif a["k"] == "const" and isinstance(a.get("fn"), dict):
                    # a crate function handed over as a value (`.map(Self::from_store)`): the callee may call it
                    fk = a["fn"]
                    r = fk.get("resolved")
                    key2 = r["key"] if r and r.get("local") else (fk.get("key") if fk.get("local") else None)
                    if key2 and key2 in self.prog.fns and key2 not in ci.closures:
                        ci.closures.append(key2)
            okey = res["key"] if res else f["key"]
            for kk in (okey, f["key"]):
                if kk in MRUC_OVERRIDES and ci.mruc:
                    ci.mruc = False
                    ci.cmp = ci.hash = ci.eq = False
                    ci.override = kk
                    self.overrides_used[kk] = MRUC_OVERRIDES[kk]
        self._calls[k] = ci
        return ci

    def local_impl_methods(self, pred):
        """trait predicate whose self type is (a reference to) an ADT defined in the analysed crate:
        -> keys of the methods of the crate impl(s) of that trait for that ADT, else None"""
        st = pred["self"]
        while st.get("k") == "ref":
            st = st["inner"]
        if st.get("k") != "adt" or st.get("krate") != self.prog.j["crate"]:
            return None
        out = []
        found = False
        for im in self.prog.impls:
            if im.get("trait") != pred["trait"]:
                continue
            s2 = im["self"]
            while s2.get("k") == "ref":
                s2 = s2["inner"]
            if s2.get("k") == "adt" and s2["path"] == st["path"]:
                found = True
                out.extend(it["key"] for it in im["items"] if it["key"] in self.prog.fns)
        return out if found else None

    def args_vp(self, ci):
        if ci.args_vp is None:
            ci.args_vp = [self.vp.operand(ci.fn, a) for a in ci.t["args"]]
        return ci.args_vp

    # ---- events ------------------------------------------------------------------------
    def events(self, fn):
        """ordered list of events per block: dicts with kind in
        tw (table write), mw (map mutation), cap, call (crate call), ext (external call w/ user code), ret"""
        if fn.key in self._events:
            return self._events[fn.key]
        evs = []
        vp = self.vp
        live = fn.cfg.reach
        for bi, b in enumerate(fn.blocks):
            if b["cleanup"] or bi not in live:
                continue
            for si, s in enumerate(b["stmts"]):
                if s["k"] != "assign":
                    continue
                pl = s["place"]
                if not pl["proj"]:
                    continue
                tgt = vp.place(fn, pl)
                w = classify_write_target(tgt)
                if w:
                    comp, how, idx = w
                    evs.append({"kind": "tw" if comp != "map" else "mwraw", "comp": comp, "how": how, "idx": idx,
                                "val": vp.rvalue(fn, s["rv"]), "bb": bi, "si": si, "span": s["span"],
                                "root": w_root(tgt)})
            t = b["term"]
            if t["k"] == "call":
                ci = self.call_info(fn, bi)
                args = self.args_vp(ci)
                ev = {"kind": "ext", "bb": bi, "si": "term", "span": t["span"], "ci": ci, "name": ci.name,
                      "key": ci.key}
                if ci.local_callee:
                    ev["kind"] = "call"
                    ev["callee"] = ci.local_callee
                # component-touching external calls
                if not ci.local_callee:
                    for ai, a in enumerate(args):
                        c = component(a)
                        if not c:
                            continue
                        aty = operand_ty(fn, t["args"][ai])
                        is_mut = aty.startswith("&mut") or aty.startswith("*mut")
                        by_value = not aty.startswith("&") and not aty.startswith("*")
                        comp = c[0]
                        ev["comp"] = comp
                        ev["root"] = c[1]
                        ev["argpos"] = ai
                        if ci.key in ("std::mem::swap", "std::mem::replace", "std::mem::take") and (aty.startswith("&mut") or aty.startswith("*mut")):
                            # the whole component is exchanged / replaced (field-wise swap of two stores)
                            ev["kind"] = "tw" if comp != "map" else "mw"
                            ev["how"] = "call:" + ci.key
                            ev["idx"] = None
                            if comp == "map":
                                ev["mclass"] = "replace"
                            break
                        if ci.name in VIEW_NAMES and comp != "map":
                            ev["kind"] = "view"
                        elif ci.name in CAP_NAMES:
                            ev["kind"] = "cap"
                        elif comp in ("heap", "qp"):
                            if is_mut or by_value:
                                ev["kind"] = "tw"
                                ev["how"] = "call:" + ci.name
                                ev["idx"] = args[1] if len(args) > 1 else None
                            else:
                                ev["kind"] = "tr"
                        elif comp == "map":
                            ev["kind"] = "mw" if (is_mut or by_value) and ci.name not in VIEW_NAMES | {"get_index"} else "mr"
                            ev["mclass"] = map_class(ci.name)
                        elif comp == "size":
                            ev["kind"] = "tr"
                        break
                    else:
                        # whole-store operations through std::mem
                        if ci.key in ("std::mem::swap", "std::mem::replace", "std::mem::take"):
                            for ai, a in enumerate(args):
                                aty = operand_ty(fn, t["args"][ai])
                                # exactly one level: `mem::swap(&mut longer, &mut shorter)` on two `&mut Store` HANDLES exchanges
                                # the handles, not the stores
                                if aty.replace(" ", "").startswith(("&mutstore::Store<", "&'_mutstore::Store<")) or (
                                        aty.startswith("&") and "mut store::Store<" in aty and aty.count("&") == 1):
                                    ev["kind"] = "tw"
                                    ev["comp"] = "*"
                                    ev["how"] = "call:" + ci.key
                                    ev["root"] = strip(a)
                                    ev["idx"] = None
                                    break
                        # entry API objects (VacantEntry::insert etc.)
                        if ev["kind"] == "ext":
                            mc = entry_class(ci)
                            if mc:
                                ev["kind"] = "mw"
                                ev["comp"] = "map"
                                ev["mclass"] = mc
                                ev["via_entry"] = True
                evs.append(ev)
            elif t["k"] == "return":
                evs.append({"kind": "ret", "bb": bi, "si": "term", "span": t["span"]})
        self._events[fn.key] = evs
        return evs

    # ---- events with private helper functions inlined ------------------------------------------------
    def known_functions(self):
        if not hasattr(FX, "_known"):
            import json as _json, os as _os
            p = _os.path.join(_os.path.dirname(_os.path.dirname(_os.path.abspath(__file__))), "rules", "known_functions.json")
            try:
                FX._known = set(_json.load(open(p)))
            except OSError:
                FX._known = set()
        return FX._known

    def inlinable(self, key, stack=()):
        """a NEW private function (not in the reviewed inventory) that writes tables / the map and whose every such
        event is executed on every path through it: its events are analysed as part of each caller"""
        if key in stack or key in self.known_functions():
            return False
        f = self.prog.fn(key)
        if f is None or f.is_closure or f.exported or not f.body or len(f.blocks) > 40 or f.cfg.loops:
            return False
        evs = self.events(f)
        interesting = [e for e in evs if e["kind"] in ("tw", "mw", "mwraw", "cap")]
        if not interesting:
            return False
        for e in interesting:
            if e["bb"] != 0 and f.cfg.escape_path(0, {e["bb"]}) is not None:
                return False
        return True

    def events_inl(self, fn, stack=()):
        """events of fn with the events of inlinable private helpers spliced in at their call sites (parameters substituted)"""
        from .core import subst_params
        out = []
        for ev in self.events(fn):
            if ev["kind"] == "call" and self.inlinable(ev["callee"], stack + (fn.key,)):
                callee = self.prog.fn(ev["callee"])
                args = tuple(self.args_vp(ev["ci"]))
                for e2 in self.events_inl(callee, stack + (fn.key,)):
                    if e2["kind"] in ("ret", "view"):
                        continue
                    e3 = dict(e2)
                    e3["bb"] = ev["bb"]
                    e3["si"] = "term"
                    e3["inlined_from"] = callee.key
                    e3["span"] = ev["span"]
                    for k in ("root", "idx", "val"):
                        if e3.get(k) is not None:
                            e3[k] = subst_params(e3[k], callee.key, args)
                    if "ci" in e2 and "args_sub" not in e2:
                        e3["args_sub"] = [subst_params(a, callee.key, args) for a in self.args_vp(e2["ci"])]
                    elif "args_sub" in e2:
                        e3["args_sub"] = [subst_params(a, callee.key, args) for a in e2["args_sub"]]
                    out.append(e3)
                ev = dict(ev)
                ev["inlined"] = True
            out.append(ev)
        return out

    def inlined_everywhere(self, key):
        """is `key` a helper analysed only through its callers?"""
        return self.inlinable(key)

    # ---- effects (least fixed point over the call graph incl. closures passed to combinators) ----
    @property
    def effects(self):
        if self._eff is not None:
            return self._eff
        eff = {k: set() for k in self.prog.fns}
        edges = defaultdict(set)
        for f in self.prog.fns.values():
            for ev in self.events(f):
                k = ev["kind"]
                if k == "tw":
                    eff[f.key].add("TW")
                    eff[f.key].add("TW:" + ev["comp"])
                elif k in ("mw", "mwraw"):
                    mc = ev.get("mclass", "raw")
                    eff[f.key].add("MW")
                    eff[f.key].add("MW:" + mc)
                    if mc in ("keymut",) or ev.get("name") in MAP_KEYMUT:
                        eff[f.key].add("KEYMUT")
                if "ci" in ev:
                    ci = ev["ci"]
                    if ci.local_callee:
                        edges[f.key].add(ci.local_callee)
                    else:
                        for cbk in self.callbacks(f, ev["bb"]):
                            edges[f.key].add(cbk)
                    for c in ci.closures:
                        if c in self.prog.fns:
                            edges[f.key].add(c)
                    if ci.mruc:
                        eff[f.key].add("MRUC")
                    if ci.cmp:
                        eff[f.key].add("CMP")
                    if ci.hash:
                        eff[f.key].add("HASHB")
                    if ci.name in MAP_KEYMUT and ev.get("comp") == "map":
                        eff[f.key].add("KEYMUT")
        changed = True
        while changed:
            changed = False
            for a, bs in edges.items():
                for b in bs:
                    add = {e for e in eff[b] if ":" not in e or e.startswith("TW:") or e.startswith("MW:")} - eff[a]
                    if add:
                        eff[a] |= add
                        changed = True
        self._eff = eff
        self.edges = edges
        return eff

    def callbacks(self, f, bb):
        """crate trait-impl methods a FOREIGN generic callee may call back: the callee is instantiated with a crate type P (at any
        depth of its generic arguments) and one of its own bounds names a foreign trait that P implements in this crate
        (`collect::<_, Result<Store, E>>` with `B: FromIterator` -> `<Store as FromIterator>::from_iter`)"""
        t = f.term(bb)
        fu = t.get("func") if isinstance(t, dict) else None
        if not fu or fu.get("local"):
            return ()
        crate = self.prog.j.get("crate")
        paths = set()

        def scan(ty):
            if not isinstance(ty, dict):
                return
            if ty.get("k") == "adt" and ty.get("krate") == crate and ty.get("path"):
                paths.add(ty["path"])
            for a in ty.get("args") or []:
                scan(a)
            for a in ty.get("elems") or []:
                scan(a)
            if ty.get("inner"):
                scan(ty["inner"])
        for g in fu.get("gargs") or []:
            scan(g)
        scan(fu.get("self_ty"))
        if not paths:
            return ()
        traits = {p.get("trait") for p in fu.get("preds") or [] if p.get("kind") == "trait"}
        traits.discard(None)
        if fu.get("trait"):
            traits.add(fu["trait"])
        out = set()
        for im in self.prog.impls:
            tr = im.get("trait")
            if not tr or tr not in traits or im.get("auto_derived"):
                continue
            sd = (im.get("self") or {}).get("path") or (im.get("self_desc") or "").split("<")[0]
            if sd in paths:
                for it in im.get("items", []):
                    if it.get("key") in self.prog.fns and it["key"] != f.key:
                        out.add(it["key"])
        return sorted(out)

    def reach(self, key):
        """crate functions reachable from `key` through crate calls and passed closures (incl. key)"""
        _ = self.effects
        seen = {key}
        st = [key]
        while st:
            x = st.pop()
            for y in self.edges.get(x, ()):
                if y not in seen:
                    seen.add(y)
                    st.append(y)
        return seen


def operand_ty(fn, o):
    if o["k"] in ("copy", "move"):
        return o["place"]["ty"]
    return o.get("ty", "")


def classify_write_target(t):
    """target place term of an assignment -> (component, how, index term) or None"""
    c = component(t) if t[0] != "deref" else None
    if c and t[0] == "field":
        return (c[0], "whole", None)
    if t[0] == "deref":
        inner = t[1]
        # through a reference produced by an element accessor on a component view
        cands = [inner]
        if inner[0] == "phi":
            cands = list(inner[4])
        for x in cands:
            if x[0] == "call" and x[2]:
                nm = x[1].split("::")[-1]
                cc = component(x[2][0])
                if cc and nm in ("get_unchecked_mut", "index_mut", "first_mut", "last_mut", "get_mut"):
                    return (cc[0], "elem", x[2][1] if len(x[2]) > 1 else ("const", "0"))
                if x[1] in ("std::option::Option::unwrap", "std::option::Option::unwrap_unchecked",
                            "std::option::Option::expect") and x[2][0][0] == "call":
                    y = x[2][0]
                    cc = component(y[2][0]) if y[2] else None
                    nm = y[1].split("::")[-1]
                    if cc and nm in ("get_mut", "first_mut", "last_mut"):
                        return (cc[0], "elem", y[2][1] if len(y[2]) > 1 else ("const", "0"))
            if x[0] == "some" and x[1][0] == "call" and x[1][2]:
                # `if let Some(slot) = v.get_mut(i) { *slot = .. }`: the checked form of an element write
                y = x[1]
                cc = component(y[2][0])
                nm = y[1].split("::")[-1]
                if cc and nm in ("get_mut", "first_mut", "last_mut"):
                    return (cc[0], "elem", y[2][1] if len(y[2]) > 1 else ("const", "0"))
            cc = component(x)
            if cc and x[0] != "call":
                return (cc[0], "whole", None)
    if t[0] == "index":
        cc = component(t[1])
        if cc:
            return (cc[0], "elem", t[2])
    if t[0] == "field":
        # write to a field of an element (e.g. (*qpi).0 = ..)
        return classify_write_target(t[1]) if t[1][0] in ("deref", "index") else None
    return None


def w_root(t):
    for x in walk(t):
        c = component(x)
        if c:
            return c[1]
    return None


def map_class(name):
    if name in MAP_GROW:
        return "grow"
    if name in MAP_SHRINK:
        return "shrink"
    if name in MAP_CLEAR:
        return "clear"
    if name in ("clone_from", "clone_into"):
        return "replace"   # the whole map is overwritten by a copy of another one
    if name in MAP_RETAIN:
        return "retain"
    if name in MAP_REORDER:
        return "reorder"
    if name in MAP_ENTRY:
        return "entry"
    if name in MAP_KEYMUT:
        return "keymut"
    if name in MAP_VALMUT:
        return "valmut"
    return "other:" + name


def entry_class(ci):
    """calls on indexmap entry objects"""
    f = ci.t.get("func", {})
    st = f.get("impl_self", {}) or {}
    path = st.get("path", "")
    if ci.krate != "indexmap":
        return None
    if "VacantEntry" in path or "VacantEntry" in ci.key:
        if ci.name in ("insert", "insert_entry", "insert_sorted", "shift_insert", "insert_sorted_by"):
            return "grow"
    if "OccupiedEntry" in path or "OccupiedEntry" in ci.key or "IndexedEntry" in ci.key:
        if ci.name in MAP_SHRINK:
            return "shrink"
        if ci.name in ("insert", "get_mut", "into_mut"):
            return "valmut"
        if ci.name in MAP_KEYMUT or ci.name in ("key_mut", "replace_key", "insert_key"):
            return "keymut"
        if ci.name in MAP_REORDER or ci.name in ("move_index", "swap_indices"):
            return "reorder"
    if "Entry" in ci.key and ci.name in MAP_GROW:
        return "grow"
    return None
