"""Variable normalisation of one MIR body for the skeleton rules (R-SIFT / R-DUAL / R-PRIM), DESIGN 8.8.

The decision skeleton speaks about values, but MIR speaks about variables; two spellings of the same algorithm can
differ only in how values are spread over variables (one `let mut l` re-assigned in the loop vs. a fresh `let l` per
iteration; a selection written in line vs. returned by an inlined helper through a result slot).  Three classic,
semantics-preserving rewritings bring both to the same form before the skeleton is read:

 1. web splitting   - a local whose definitions never meet at a use is split into one local per def-use web;
 2. copy coalescing - `X = Y` where that copy is the only use of Y and X is untouched between Y's definitions and the
                      copy: Y's definitions define X directly (the result slot of an inlined helper disappears);
 3. self copies     - `X = Y` where Y was last set by `Y = X` and X has not changed since: the statement is dropped.

The rewritten body is used for reading skeletons only; every other rule sees the body as extracted.
"""
import copy
import json

from .core import Fn
from .flowvp import Reach

TERM = 10 ** 6


def _places(x, out):
    if isinstance(x, dict):
        if "local" in x and "proj" in x:
            out.append(x)
        for v in x.values():
            _places(v, out)
    elif isinstance(x, list):
        for v in x:
            _places(v, out)


def occurrences(fn):
    """yield (bb, pos, holder dict, role) for every mention of a local in the reachable non-cleanup blocks;
    holder['local'] is the local; role: 'def' (whole assignment), 'partial', 'use', 'idx' (index projection)"""
    live = fn.cfg.reach
    for bi, b in enumerate(fn.blocks):
        if b["cleanup"] or bi not in live:
            continue
        for si, s in enumerate(b["stmts"]):
            if s["k"] != "assign":
                ps = []
                _places(s, ps)
                for p in ps:
                    yield bi, si, p, "use"
                    for e in p["proj"]:
                        if e.get("k") == "index":
                            yield bi, si, e, "idx"
                continue
            pl = s["place"]
            yield bi, si, pl, ("def" if not pl["proj"] else "partial")
            for e in pl["proj"]:
                if e.get("k") == "index":
                    yield bi, si, e, "idx"
            ps = []
            _places(s["rv"], ps)
            for p in ps:
                yield bi, si, p, "use"
                for e in p["proj"]:
                    if e.get("k") == "index":
                        yield bi, si, e, "idx"
        t = b["term"]
        k = t["k"]
        if k == "call":
            ps = []
            _places(t.get("args"), ps)
            if "func_op" in t:
                _places(t["func_op"], ps)
            for p in ps:
                yield bi, TERM, p, "use"
                for e in p["proj"]:
                    if e.get("k") == "index":
                        yield bi, TERM, e, "idx"
            d = t["dest"]
            yield bi, TERM, d, ("def" if not d["proj"] else "partial")
        else:
            ps = []
            for key in ("discr", "cond", "place"):
                if key in t:
                    _places(t[key], ps)
            for p in ps:
                yield bi, TERM, p, "use"
                for e in p["proj"]:
                    if e.get("k") == "index":
                        yield bi, TERM, e, "idx"


def _rebuild(prog, fn, j):
    g = Fn(prog, j)
    g.normalised_from = getattr(fn, "normalised_from", fn)
    return g


# ---- 1. web splitting --------------------------------------------------------------------------
def split_webs(prog, fn):
    r = Reach(fn)
    if not r.multi:
        return fn, 0
    parent = {}

    def find(x):
        while parent.setdefault(x, x) != x:
            parent[x] = parent[parent[x]]
            x = parent[x]
        return x

    def union(a, b):
        ra, rb = find(a), find(b)
        if ra != rb:
            parent[ra] = rb

    occ = list(occurrences(fn))
    for bi, pos, h, role in occ:
        l = h["local"]
        if l not in r.multi or role == "def":
            continue
        dids = r.at(l, bi, pos)
        dids = sorted(dids, key=str)
        for d in dids[1:]:
            union(dids[0], d)
        if dids:
            find(dids[0])
    # a boolean temporary whose literal definition was jump-threaded past its switch (`while if a { b } else { false }`)
    # is still read by that switch
    for (pb, jb, tgt) in getattr(fn.cfg, "threaded", []) or []:
        tj = fn.term(jb)
        if tj["k"] == "switch" and tj["discr"]["k"] in ("copy", "move") and not tj["discr"]["place"]["proj"]:
            ls = [tj["discr"]["place"]["local"]]
            for s0 in fn.blocks[jb]["stmts"]:
                # `d = discriminant(T); switch(d)`: T is what was threaded
                if s0["k"] == "assign" and s0["rv"]["k"] == "discriminant" and not s0["rv"]["place"]["proj"]:
                    ls.append(s0["rv"]["place"]["local"])
                # `t = copy named; switch(t)`: the named boolean is what was threaded
                if s0["k"] == "assign" and s0["rv"]["k"] == "use" and s0["rv"]["op"].get("k") in ("copy", "move") and not s0["rv"]["op"]["place"]["proj"] \
                        and not s0["place"]["proj"] and s0["place"]["local"] in ls:
                    ls.append(s0["rv"]["op"]["place"]["local"])
            for l in ls:
                if l in r.multi:
                    dids = sorted(r.defs_of(l), key=str)
                    for d in dids[1:]:
                        union(dids[0], d)
    # the return terminator reads the return place
    if 0 in r.multi:
        for rb in fn.cfg.returns:
            dids = sorted(r.at(0, rb, TERM), key=str)
            for d in dids[1:]:
                union(dids[0], d)
    # defs that reach no use stay alone
    newlocal = {}
    nsplit = 0
    j = fn.j
    locals_ = j["body"]["locals"]
    for l in sorted(r.multi):
        real = [did for did in r.defs_of(l)]
        groups = {}
        for did in real:
            groups.setdefault(find(did), []).append(did)
        keep = None
        if fn.locals[l]["arg"] or l == 0:
            keep = find((l, "param")) if fn.locals[l]["arg"] else None
        order = sorted(groups, key=lambda g: min(str(d) for d in groups[g]))
        if l == 0:
            # the return place: the web that reaches the return keeps the number
            for rb in fn.cfg.returns:
                for did in r.at(0, rb, TERM):
                    keep = find(did)
        if keep is None or keep not in groups:
            keep = order[0] if (keep is None) else keep
        for g in order:
            if g == keep:
                continue
            locals_.append(dict(copy.deepcopy(locals_[l]), arg=False))
            newlocal[g] = len(locals_) - 1
            nsplit += 1
    if not nsplit:
        return fn, 0
    # rewrite
    def_at = {}
    for did, d in r.defs.items():
        pos = d[2] if d[0] == "stmt" else TERM
        def_at[(did[0], d[1], pos)] = did
    for bi, pos, h, role in occ:
        l = h["local"]
        if l not in r.multi:
            continue
        if role == "def":
            did = def_at.get((l, bi, pos))
            if did is not None and find(did) in newlocal:
                h["local"] = newlocal[find(did)]
        else:
            dids = r.at(l, bi, pos)
            if dids:
                g = find(sorted(dids, key=str)[0])
                if g in newlocal:
                    h["local"] = newlocal[g]
    return _rebuild(prog, fn, j), nsplit


# ---- 2. copy coalescing ------------------------------------------------------------------------
def _plain_copy(s):
    """`X = use(copy|move Y)` with whole locals -> (X, Y)"""
    if s["k"] != "assign" or s["place"]["proj"] or s["rv"]["k"] != "use":
        return None
    o = s["rv"]["op"]
    if o["k"] not in ("copy", "move") or o["place"]["proj"]:
        return None
    return s["place"]["local"], o["place"]["local"]


def _copy_clash(fn, cfg, occ, ydefs, X, sites, Y):
    """would giving Y's definitions to X (and deleting the copies `X = Y` at `sites`) change what some read of X sees?
    (1) backwards from every copy along the paths on which a definition of Y reaches it: X is not mentioned there;
    (2) forwards from every definition of Y: X is not read before it is written again (the copies count as writes)."""
    per = {}
    for b2, pos2, h2, role2 in occ:
        if h2["local"] == X:
            per.setdefault(b2, {}).setdefault(pos2, set()).add(role2)
    ydef_at = {}
    for d in ydefs:
        ydef_at.setdefault(d[1], set()).add(d[2] if d[0] == "stmt" else TERM)
    siteset = set(sites)
    nst = {bi: len(fn.blocks[bi]["stmts"]) for bi in cfg.reach}

    def positions_down(bi, start):
        """statement positions of block bi below `start` (exclusive), highest first; TERM sorts above every statement"""
        out = []
        if start == TERM + 1:
            out.append(TERM)
            start = nst[bi]
        elif start == TERM:
            start = nst[bi]
        out.extend(range(min(start, nst[bi]) - 1, -1, -1))
        return out

    # (1)
    for (bi, si) in sites:
        seen = set()
        st = [(bi, si)]
        first = True
        while st:
            b2, start = st.pop()
            stopped = False
            for pos in positions_down(b2, start):
                if (b2, pos) in siteset:
                    stopped = True      # an earlier execution of a copy: X holds Y's value from there on already
                    break
                if pos in ydef_at.get(b2, ()):
                    stopped = True      # the definition that reaches the copy (it may read X: it reads before it writes)
                    roles = per.get(b2, {}).get(pos, set())
                    if roles - {"use", "idx"}:
                        return True
                    break
                if pos in per.get(b2, {}):
                    return True
            if stopped:
                continue
            for p in cfg.pred[b2]:
                if p in cfg.reach and not fn.blocks[p]["cleanup"] and p not in seen:
                    seen.add(p)
                    st.append((p, TERM + 1))
            if b2 == 0:
                return True      # the entry is reached with Y undefined: not the shape this transformation is for
    # (2)
    for d in ydefs:
        b0 = d[1]
        p0 = d[2] if d[0] == "stmt" else TERM
        seen = set()
        st = [(b0, p0)]
        while st:
            b2, after = st.pop()
            killed = False
            if after != TERM:
                for pos in list(range(after + 1 if after >= 0 else 0, nst[b2])) + [TERM]:
                    roles = per.get(b2, {}).get(pos)
                    if (b2, pos) in siteset:
                        killed = True
                        break
                    if roles:
                        if roles & {"use", "idx", "partial"}:
                            return True
                        killed = True
                        break
            if killed:
                continue
            for y in cfg.succ[b2]:
                if y in cfg.reach and y not in seen:
                    seen.add(y)
                    st.append((y, -1))
    return False


def coalesce(prog, fn):
    n = 0
    for _round in range(12):
        occ = list(occurrences(fn))
        uses = {}
        others = {}
        for bi, pos, h, role in occ:
            l = h["local"]
            if role == "def":
                continue
            uses.setdefault(l, []).append((bi, pos, role))
        done = False
        cfg = fn.cfg
        for bi, b in enumerate(fn.blocks):
            if b["cleanup"] or bi not in cfg.reach or done:
                continue
            for si, s in enumerate(b["stmts"]):
                pc = _plain_copy(s)
                if pc is None:
                    continue
                X, Y = pc
                if X == Y or fn.locals[Y]["arg"] or Y == 0:
                    continue
                if fn.locals[X]["ty"]["s"] != fn.locals[Y]["ty"]["s"]:
                    continue
                # Y is read by this copy only - or by several copies, all of them into X (the return value of an inlined
                # helper with more than one `return`)
                sites = [(bi, si)]
                if uses.get(Y, []) != [(bi, si, "use")]:
                    sites = []
                    for (b3, p3, r3) in uses.get(Y, []):
                        pc3 = _plain_copy(fn.blocks[b3]["stmts"][p3]) if r3 == "use" and isinstance(p3, int) and p3 < len(fn.blocks[b3]["stmts"]) else None
                        if pc3 != (X, Y) or b3 not in cfg.reach or fn.blocks[b3]["cleanup"]:
                            sites = None
                            break
                        sites.append((b3, p3))
                    if not sites or len(set(sites)) != len(sites):
                        continue
                ydefs = fn.defs.get(Y, [])
                if not ydefs or fn.partial.get(Y):
                    continue
                if _copy_clash(fn, cfg, occ, ydefs, X, sites, Y):
                    continue
                # Y's definitions define X; the copy disappears
                for b2, pos2, h2, role2 in occ:
                    if h2["local"] == Y:
                        h2["local"] = X
                for b3, p3 in sites:
                    fn.blocks[b3]["stmts"][p3]["k"] = "nop"
                    fn.blocks[b3]["stmts"][p3]["was"] = "coalesced copy"
                n += 1
                done = True
                break
        if not done:
            break
        j = fn.j
        for b in j["body"]["blocks"]:
            b["stmts"] = [s for s in b["stmts"] if s.get("k") != "nop"]
        fn = _rebuild(prog, fn, j)
    return fn, n


# ---- 2b. a local that takes over a parameter ----------------------------------------------------
def _live_after(fn, cfg, occ, L, d):
    """is local L read on some path after the definition d (before being wholly rewritten)?"""
    per = {}
    for b2, pos2, h2, role2 in occ:
        if h2["local"] == L:
            per.setdefault(b2, {}).setdefault(pos2, set()).add(role2)
    nst = {bi: len(fn.blocks[bi]["stmts"]) for bi in cfg.reach}
    b0 = d[1]
    p0 = d[2] if d[0] == "stmt" else TERM
    seen = set()
    st = [(b0, p0)]
    while st:
        b2, after = st.pop()
        killed = False
        if after != TERM:
            for pos in list(range(after + 1 if after >= 0 else 0, nst[b2])) + [TERM]:
                roles = per.get(b2, {}).get(pos)
                if roles:
                    if roles & {"use", "idx", "partial"}:
                        return True
                    killed = True
                    break
        if killed:
            continue
        for y in cfg.succ[b2]:
            if y in cfg.reach and y not in seen:
                seen.add(y)
                st.append((y, -1))
    return False


def adopt_params(prog, fn):
    """`let settled = if .. { position } else { .. };` where the parameter `position` is never written and not read any more
    once `settled` has a value of its own: the local is the parameter under another name (`mut position`, reassigned)."""
    n = 0
    for _round in range(6):
        occ = list(occurrences(fn))
        cfg = fn.cfg
        done = False
        for bi, b in enumerate(fn.blocks):
            if b["cleanup"] or bi not in cfg.reach or done:
                continue
            for si, s in enumerate(b["stmts"]):
                pc = _plain_copy(s)
                if pc is None:
                    continue
                X, Y = pc
                if X == Y or X == 0 or not fn.locals[Y]["arg"] or fn.locals[X]["arg"]:
                    continue
                if fn.locals[X]["ty"]["s"] != fn.locals[Y]["ty"]["s"]:
                    continue
                if fn.defs.get(Y) or fn.partial.get(Y) or fn.partial.get(X):
                    continue
                mutref = False
                for b2 in fn.blocks:
                    for s2 in b2["stmts"]:
                        if s2["k"] == "assign" and s2["rv"]["k"] in ("ref", "addr") and s2["rv"].get("place", {}).get("local") in (X, Y) \
                                and not s2["rv"]["place"]["proj"] and (s2["rv"].get("mut") or s2["rv"]["k"] == "addr"):
                            mutref = True
                if mutref:
                    continue
                xdefs = fn.defs.get(X, [])
                own = [d for d in xdefs if not (d[0] == "stmt" and _plain_copy(d[3]) == (X, Y))]
                if not own or any(_live_after(fn, cfg, occ, Y, d) for d in own):
                    continue
                for b2, pos2, h2, role2 in occ:
                    if h2["local"] == X:
                        h2["local"] = Y
                for d in xdefs:
                    if d[0] == "stmt" and d not in own:
                        d[3]["k"] = "nop"
                n += 1
                done = True
                break
        if not done:
            break
        j = fn.j
        for b in j["body"]["blocks"]:
            b["stmts"] = [s for s in b["stmts"] if s.get("k") != "nop"]
        fn = _rebuild(prog, fn, j)
    return fn, n


# ---- 3. self copies ----------------------------------------------------------------------------
def drop_self_copies(prog, fn):
    r = Reach(fn)
    n = 0

    def chase(bi, si, l):
        """the plain copy `l = src` that is the one definition of l reaching (bi, si): -> (src, bb, pos) or None"""
        if l in r.multi:
            dids = r.at(l, bi, si)
            if len(dids) != 1:
                return None
            did = next(iter(dids))
            if did[1] in ("param", "undef"):
                return None
            d = r.defs[did]
        else:
            ds = fn.defs.get(l, [])
            if len(ds) != 1 or fn.locals[l]["arg"]:
                return None
            d = ds[0]
        if d[0] != "stmt":
            return None
        pc = _plain_copy(d[3])
        if pc is None:
            return None
        return (pc[1], d[1], d[2])

    for bi, b in enumerate(fn.blocks):
        if b["cleanup"] or bi not in fn.cfg.reach:
            continue
        for si, s in enumerate(b["stmts"]):
            pc = _plain_copy(s)
            if pc is None:
                continue
            X, Y = pc
            if X not in r.multi:
                continue
            # follow Y back through plain copies until X is met
            cur = (Y, bi, si)
            hops = 0
            hit = None
            while cur is not None and hops < 6:
                hops += 1
                nxt = chase(cur[1], cur[2], cur[0])
                if nxt is None:
                    break
                if nxt[0] == X:
                    hit = nxt
                    break
                cur = nxt
            if hit is None:
                continue
            # X unchanged between that read of X and this statement
            if r.at(X, hit[1], hit[2]) == r.at(X, bi, si) and len(r.at(X, bi, si)) >= 1:
                s["k"] = "nop"
                s["was"] = "self copy"
                n += 1
    if not n:
        return fn, 0
    j = fn.j
    for b in j["body"]["blocks"]:
        b["stmts"] = [s for s in b["stmts"] if s.get("k") != "nop"]
    return _rebuild(prog, fn, j), n


# ---- 0. loop rotation --------------------------------------------------------------------------
def _retarget_term(t, m):
    k = t["k"]
    if k == "goto":
        t["target"] = m.get(t["target"], t["target"])
    elif k == "switch":
        t["targets"] = [[v, m.get(b, b)] for v, b in t["targets"]]
        t["otherwise"] = m.get(t["otherwise"], t["otherwise"])
    elif k in ("call", "assert", "drop"):
        if t.get("target") is not None:
            t["target"] = m.get(t["target"], t["target"])


def merge_return_tails(prog, fn):
    """several `return x` of the same variable (`if .. { return position }` at two places of a loop) are one return site:
    blocks that only assign the return place, identically, and go to the same block are merged"""
    j = fn.j
    blocks = j["body"]["blocks"]
    cfg = fn.cfg

    def sig(bi):
        b = blocks[bi]
        if b["cleanup"] or bi not in cfg.reach or not b["stmts"]:
            return None
        out = []
        for s in b["stmts"]:
            if s["k"] != "assign" or s["place"]["local"] != 0 or s["place"]["proj"]:
                return None
            out.append(json.dumps({k: v for k, v in s.items() if k not in ("span", "inlined_return", "inlined_arg")}, sort_keys=True))
        t = b["term"]
        if t["k"] == "return":
            tail = "return"
        elif t["k"] == "goto" and blocks[t["target"]]["term"]["k"] == "return" and not blocks[t["target"]]["stmts"]:
            tail = "goto-return"
        else:
            return None
        return (tuple(out), tail)
    groups = {}
    for bi in sorted(cfg.reach):
        sg = sig(bi)
        if sg is not None:
            groups.setdefault(sg, []).append(bi)
    m = {}
    for sg, bs in groups.items():
        for b2 in bs[1:]:
            m[b2] = bs[0]
    if not m:
        return fn, 0
    for bi, b in enumerate(blocks):
        if bi in cfg.reach and not b["cleanup"]:
            _retarget_term(b["term"], m)
    return _rebuild(prog, fn, j), len(m)


def rotate_loops(prog, fn):
    """`loop { A; if c { break }; B }` (exit test in the middle, nothing leaves the loop before it) becomes
    `A'; if !c' { loop { B; A; if c { break } } }`: the part of the body in front of the exit test, and the test, are
    duplicated for the entry.  A hand-peeled first iteration (`A0; while c { B; A }`, where the compiler puts the evaluation
    of `c` in front of the test) ends up in the same form."""
    n = 0
    for _round in range(3):
        cfg = fn.cfg
        done = False
        for lp in sorted(cfg.loops, key=lambda l: len(l["body"])):
            H, B = lp["header"], lp["body"]
            exits = [(x, y) for x in B for y in cfg.succ[x] if y not in B]
            exiting = {x for x, _ in exits}
            if len(exiting) != 1 or H in exiting:
                continue
            E = next(iter(exiting))
            # the part in front of the test: reachable from H inside the loop without passing E
            F = {H}
            st = [H]
            while st:
                x = st.pop()
                for y in cfg.succ[x]:
                    if y in B and y != E and y not in F:
                        F.add(y)
                        st.append(y)
            latches = {a for a, _ in lp["backedges"]}
            if latches & F or any(y not in F and y != E for x in F for y in cfg.succ[x]):
                continue
            if not all(cfg.dominates(E, a) for a in latches) or len(F) > 60:
                continue
            if any(fn.blocks[x]["term"]["k"] not in ("goto", "switch", "call", "assert", "drop") for x in F):
                continue
            entries = [p for p in cfg.pred[H] if p not in B]
            if not entries:
                continue
            j = fn.j
            blocks = j["body"]["blocks"]
            m = {}
            # the exit test is duplicated too (each copy then reads the one condition value computed in front of it)
            if fn.blocks[E]["term"]["k"] not in ("switch",) or any(y in F or y == E for y in cfg.succ[E]):
                continue
            for x in sorted(F | {E}):
                m[x] = len(blocks)
                blocks.append(copy.deepcopy(blocks[x]))
            for x in sorted(F | {E}):
                _retarget_term(blocks[m[x]]["term"], m)
            for pidx in entries:
                _retarget_term(blocks[pidx]["term"], {H: m[H]})
            fn = _rebuild(prog, fn, j)
            n += 1
            done = True
            break
        if not done:
            break
    return fn, n


def normalise(prog, fn):
    """-> (normalised Fn, report string)"""
    if not fn.body or not fn.blocks:
        return fn, ""
    j = copy.deepcopy(fn.j)
    g = Fn(prog, j)
    g.normalised_from = fn
    rep = []
    g, m0 = merge_return_tails(prog, g)
    if m0:
        rep.append("return sites merged %d" % m0)
    g, r0 = rotate_loops(prog, g)
    if r0:
        rep.append("loops rotated %d" % r0)
    for _ in range(3):
        g, a = split_webs(prog, g)
        g, b = coalesce(prog, g)
        g, c = drop_self_copies(prog, g)
        g, d = adopt_params(prog, g)
        if a or b or c or d:
            rep.append("webs split %d, copies coalesced %d, self copies dropped %d, parameters adopted %d" % (a, b, c, d))
        if not (b or c or d):
            break
    return g, "; ".join(rep)
