"""Thorough tier additions: compile-fail witnesses (type-level remainder) and the checker self-test
(seeded-defect corpus + silent-on-benign corpus), the latter recorded in the evidence only."""
import glob
import json
import os
import re
import shutil
import subprocess
import tempfile

from .engine import HERE, tree_hash

WITNESS_FOR = {
    "C01": ["W1a", "W1b", "W1d"], "C02": ["W1c"], "C12": ["W1a", "W1b", "W1c", "W1d"],
    "C08": ["W2a", "W3"], "C16": ["W2b", "W3"],
}


def run_witnesses(src):
    """type-check the witness doctests against `src`; -> dict name -> list of (kind, ok)"""
    cache = os.path.join(HERE, ".cache", "witness")
    os.makedirs(cache, exist_ok=True)
    key = tree_hash(src) + "-" + str(int(os.path.getmtime(os.path.join(HERE, "witness", "src", "lib.rs"))))
    cf = os.path.join(cache, key + ".json")
    if os.path.exists(cf):
        return json.load(open(cf))
    tmp = tempfile.mkdtemp(prefix="pqwit.")
    try:
        w = os.path.join(tmp, "witness")
        shutil.copytree(os.path.join(HERE, "witness"), w, ignore=shutil.ignore_patterns("target"))
        ct = open(os.path.join(w, "Cargo.toml")).read().replace('path = "/repo"', 'path = "%s"' % os.path.abspath(src))
        open(os.path.join(w, "Cargo.toml"), "w").write(ct)
        lock = os.path.join(src, "Cargo.lock")
        if os.path.exists(lock):
            shutil.copy(lock, os.path.join(w, "Cargo.lock"))
        env = dict(os.environ, CARGO_TARGET_DIR=os.path.join(tmp, "target"), CARGO_NET_OFFLINE="true")
        r = subprocess.run(["cargo", "+nightly", "test", "--doc", "--offline"], cwd=w, env=env, capture_output=True, text=True)
        out = r.stdout + r.stderr
        res = {}
        for m in re.finditer(r"test src/lib\.rs - (\w+) \(line (\d+)\)( - compile fail| - compile)? \.\.\. (\w+)", out):
            kind = "compile_fail" if (m.group(3) or "").endswith("fail") else "twin"
            res.setdefault(m.group(1), []).append([kind, m.group(4) == "ok", int(m.group(2))])
        if not res:
            res = {"__error__": [["harness", False, 0]], "__log__": out[-1500:]}
        json.dump(res, open(cf, "w"))
        return res
    finally:
        shutil.rmtree(tmp, ignore_errors=True)


def _run_patch(args):
    kind, ident, patch, pid = args
    mutrun = os.path.join(HERE, "bin", "mutrun.sh")
    env = dict(os.environ, PQ_NO_SELFTEST="1")
    r = subprocess.run([mutrun, patch, pid], capture_output=True, text=True, env=env)
    txt = r.stdout + r.stderr
    if "PATCH-FAILED" in txt:
        return kind, {"id": ident, "result": "skipped: patch no longer applies"}
    if kind == "seeded":
        rules = sorted(set(re.findall(r"rule=([A-Z-]+)", txt)))
        return kind, {"id": ident, "result": "detected" if "VIOLATION" in txt else "MISSED", "rules": rules}
    return kind, {"id": ident, "result": "ALARM" if ("VIOLATION" in txt or "CHECK-ERROR" in txt or "Traceback" in txt) else "silent"}


def selftest(pid, limit_benign=None):
    """apply each seeded change of this property and each benign patch to a scratch copy of /repo (outside /repo and
    /verif, removed afterwards) and run the quick check there; returns a summary for the evidence (never affects the verdict)"""
    from concurrent.futures import ThreadPoolExecutor
    jobs = []
    for d in sorted(glob.glob(os.path.join(HERE, "seeded", pid + "-*"))):
        jobs.append(("seeded", os.path.basename(d), os.path.join(d, "patch.diff"), pid))
    for p in sorted(glob.glob(os.path.join(HERE, "selftest", "benign", "*.patch")))[:limit_benign]:
        jobs.append(("benign", os.path.basename(p), p, pid))
    out = {"seeded": [], "benign": []}
    with ThreadPoolExecutor(max_workers=min(8, max(1, (os.cpu_count() or 2) // 2))) as ex:
        for kind, res in ex.map(_run_patch, jobs):
            out[kind].append(res)
    out["summary"] = "seeded %d/%d detected; benign %d/%d silent" % (
        sum(1 for x in out["seeded"] if x["result"] == "detected"), sum(1 for x in out["seeded"] if not x["result"].startswith("skipped")),
        sum(1 for x in out["benign"] if x["result"] == "silent"), sum(1 for x in out["benign"] if not x["result"].startswith("skipped")))
    return out


def run(ctx, pid):
    ctx.cur = None
    if pid in WITNESS_FOR:
        res = run_witnesses(ctx.src)
        if "__error__" in res:
            ctx.ob("WITNESS", "harness", False, "witness/src/lib.rs", "witness harness did not run: %s" % res.get("__log__", "")[-300:])
        for w in WITNESS_FOR[pid]:
            items = res.get(w, [])
            cf = [x for x in items if x[0] == "compile_fail"]
            tw = [x for x in items if x[0] == "twin"]
            ok = bool(cf) and bool(tw) and all(x[1] for x in cf) and all(x[1] for x in tw)
            ctx.ob("WITNESS", w, ok, "witness/src/lib.rs",
                   "%d compile-fail witness(es) rejected with the expected error code, %d compiling twin(s) accepted" % (len(cf), len(tw)) if ok else
                   "witness %s: compile_fail results %s, twins %s (a violating program type-checks, or the witness is broken)" % (w, cf, tw))
    # self-test of the checker: evidence only, and only when analysing /repo itself
    if os.path.abspath(ctx.src) == "/repo" and os.environ.get("PQ_NO_SELFTEST") != "1":
        try:
            st = selftest(pid)
            ctx.notes.append({"selftest": st})
        except Exception as e:  # never influences the verdict
            ctx.notes.append({"selftest_error": str(e)})
