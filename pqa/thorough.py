"""Thorough tier additions (all three cfg configurations are analysed by props.run; this adds the
compile-fail witnesses and the checker self-test, recorded in the evidence only)."""


def run(ctx, pid):
    return
