"""Rule engine: contexts, obligations (rule instances), floors, known findings, evidence."""
import hashlib
import json
import os
import shutil
import subprocess
import sys
import tempfile
import time

from .core import Program, VP
from .fx import FX

HERE = os.path.dirname(os.path.dirname(os.path.abspath(__file__)))
CONFIGS = ("std", "serde", "nostd", "dbg")


class CheckError(Exception):
    """the check cannot give a verdict (tree does not build, extractor blind, anchor lost)"""


class Ob:
    __slots__ = ("rule", "key", "ok", "loc", "detail", "facts", "config")

    def __init__(self, rule, key, ok, loc, detail, facts, config):
        self.rule, self.key, self.ok, self.loc, self.detail, self.facts, self.config = rule, key, ok, loc, detail, facts, config

    @property
    def fullkey(self):
        return "%s:%s" % (self.rule, self.key)

    def as_json(self):
        return {"rule": self.rule, "key": self.key, "ok": self.ok, "loc": self.loc, "detail": self.detail,
                "config": self.config, "facts": self.facts}


class View:
    """one configuration of the analysed crate"""

    def __init__(self, config, path):
        self.config = config
        self.prog = Program(path, config)
        self.vp = VP(self.prog)
        self.fx = FX(self.prog, self.vp)

    def fn(self, key):
        return self.prog.fn(key)


class Ctx:
    def __init__(self, src, tier):
        self.src = src
        self.tier = tier
        self.views = {}
        self.obs = []
        self.notes = []
        self.undecided = []
        self.blind = []
        self.cur = None

    # ---- facts ------------------------------------------------------------------------
    def view(self, config):
        if config not in self.views:
            path = facts_for(self.src, config)
            v = View(config, path)
            u = v.prog.universe()
            # universe floors: the extractor must have seen the crate (fail closed when blind)
            if u["functions"] < 200 or u["call_sites"] < 500 or u["impls"] < 80:
                raise CheckError("extractor blind: universe %r below floors (config %s)" % (u, config))
            if v.prog.duplicate_keys:
                self.notes.append("duplicate function keys in %s: %s" % (config, sorted(v.prog.duplicate_keys)))
            if getattr(v.prog, "reloc_report", None):
                self.notes.append("types that moved to another module, analysed under their reviewed path (config %s): %s" % (config, "; ".join("%s (now %s)" % x for x in v.prog.reloc_report)))
            if v.prog.alias_report:
                self.notes.append("moved / renamed functions (config %s): %s" % (config, "; ".join(v.prog.alias_report)))
            if v.prog.closure_report:
                self.notes.append("closure expansion (config %s): %s" % (config, "; ".join(v.prog.closure_report)))
            r = v.prog.inline_report
            if r and (r["inlined"] or r["kept"] or r["skipped"]):
                self.notes.append("new private helpers (config %s): %d call site(s) inlined %s; dropped after inlining %s; kept as functions %s; not inlined %s"
                                  % (config, len(r["inlined"]), sorted(set("%s<-%s" % (c, k) for c, k in r["inlined"]))[:12], r.get("dropped"), r["kept"], r["skipped"]))
            self.views[config] = v
        return self.views[config]

    # ---- obligations ------------------------------------------------------------------
    def ob(self, rule, key, ok, loc="", detail="", **facts):
        cfg = self.cur.config if self.cur else ""
        self.obs.append(Ob(rule, key, bool(ok), loc, detail, facts, cfg))
        return bool(ok)

    def anchor(self, what, cond):
        if not cond:
            raise CheckError("anchor lost: %s" % what)

    def floor(self, rule, n, floor):
        # deferred: the rules still run, so that a change which both removes instances and breaks others is reported as
        # the violation it is; a floor failure alone ends the check with CHECK-ERROR (exit 2)
        if n < floor:
            self.blind.append("rule %s matched %d instances, floor is %d (a rule that matches nothing passes vacuously)" % (rule, n, floor))

    def count(self, rule, config=None):
        return sum(1 for o in self.obs if o.rule == rule and (config is None or o.config == config))


# ------------------------------------------------------------------------------------------
# fact cache: one extraction per (source content, config), shared by the checks of one sweep
# ------------------------------------------------------------------------------------------
def tree_hash(src):
    h = hashlib.sha256()
    paths = []
    for root in ("src", "test-nostd"):
        for dp, dn, fn in os.walk(os.path.join(src, root)):
            dn.sort()
            for f in sorted(fn):
                paths.append(os.path.join(dp, f))
    for f in ("Cargo.toml", "Cargo.lock", "build.rs"):
        p = os.path.join(src, f)
        if os.path.exists(p):
            paths.append(p)
    drv = os.path.join(HERE, "pqfacts", "target", "release", "pqfacts")
    paths.append(drv)
    for p in paths:
        h.update(p.encode())
        try:
            with open(p, "rb") as fh:
                h.update(fh.read())
        except OSError:
            h.update(b"<missing>")
    return h.hexdigest()[:24]


def facts_for(src, config):
    cache = os.path.join(HERE, ".cache", "facts")
    os.makedirs(cache, exist_ok=True)
    th = tree_hash(src)
    d = os.path.join(cache, th, config)
    out = os.path.join(d, "priority_queue.json")
    if os.path.exists(out):
        return out
    tmp = tempfile.mkdtemp(prefix="pqfacts-out.", dir=cache)
    try:
        r = subprocess.run([os.path.join(HERE, "bin", "extract.sh"), src, config, tmp], capture_output=True, text=True)
        if r.returncode != 0:
            raise CheckError("fact extraction failed for config %s (does the tree build?): %s" % (config, (r.stderr or "")[-1500:]))
        j = os.path.join(tmp, "priority_queue.json")
        if not os.path.exists(j) or os.path.getsize(j) < 1000:
            raise CheckError("no fact file produced for config %s" % config)
        os.makedirs(os.path.dirname(d), exist_ok=True)
        try:
            os.rename(tmp, d)
        except OSError:
            pass  # another process won the race
        if not os.path.exists(out):
            raise CheckError("fact cache race lost and no file present")
    finally:
        if os.path.isdir(tmp):
            shutil.rmtree(tmp, ignore_errors=True)
    prune_cache(cache, keep=th)
    return out


def prune_cache(cache, keep, max_entries=6):
    try:
        ents = [e for e in os.listdir(cache) if os.path.isdir(os.path.join(cache, e)) and not e.startswith("pqfacts-out.")]
        ents = [e for e in ents if e != keep]
        ents.sort(key=lambda e: os.path.getmtime(os.path.join(cache, e)))
        while len(ents) > max_entries:
            shutil.rmtree(os.path.join(cache, ents.pop(0)), ignore_errors=True)
    except OSError:
        pass


# ------------------------------------------------------------------------------------------
# known findings
# ------------------------------------------------------------------------------------------
def load_known():
    p = os.path.join(HERE, "known_findings.json")
    if not os.path.exists(p):
        return {"findings": [], "fixed": []}
    return json.load(open(p))
