"""Pretty-printer for pqfacts bodies (debugging / --explain)."""
import json, sys

def place_s(p):
    s = "_%d" % p["local"]
    for e in p["proj"]:
        k = e["k"]
        if k == "deref": s = "(*%s)" % s
        elif k == "field": s = "%s.%s" % (s, e.get("name", e["i"]))
        elif k == "index": s = "%s[_%d]" % (s, e["local"])
        elif k == "downcast": s = "(%s as %s)" % (s, e["name"])
        else: s = "%s.<%s>" % (s, k)
    return s

def op_s(o):
    if o["k"] in ("copy", "move"): return ("move " if o["k"]=="move" else "") + place_s(o["place"])
    if o["k"] == "const":
        if "fn" in o: return "fn:" + o["fn"]["key"]
        return "const " + o["s"]
    return o.get("s", "?")

def rv_s(r):
    k = r["k"]
    if k == "use": return op_s(r["op"])
    if k == "ref": return ("&mut " if r["mut"] else "&") + place_s(r["place"])
    if k == "rawptr": return ("&raw mut " if r["mut"] else "&raw const ") + place_s(r["place"])
    if k == "binop": return "%s(%s, %s)" % (r["op"], op_s(r["a"]), op_s(r["b"]))
    if k == "unop": return "%s(%s)" % (r["op"], op_s(r["a"]))
    if k == "cast": return "%s as %s [%s]" % (op_s(r["op"]), r["ty"], r["kind"])
    if k == "aggregate":
        h = r["agg"]
        if h == "adt": h = r["path"] + "::" + r["variant"]
        if h == "closure": h = "closure " + r["def"]
        return "%s{%s}" % (h, ", ".join(op_s(x) for x in r["ops"]))
    if k == "discriminant": return "discriminant(%s)" % place_s(r["place"])
    return k + ":" + r.get("s", "")

def term_s(t):
    k = t["k"]
    if k == "goto": return "goto bb%d" % t["target"]
    if k == "switch": return "switch(%s) -> [%s, otherwise: bb%d]" % (op_s(t["discr"]), ", ".join("%d: bb%d" % (v, b) for v, b in t["targets"]), t["otherwise"])
    if k == "call":
        f = t["func"]["key"] if "func" in t else "(" + op_s(t["func_op"]) + ")"
        extra = ""
        if "func" in t:
            fn = t["func"]
            if fn.get("trait"): extra += " {trait %s on %s}" % (fn["trait"], fn.get("self_ty", {}).get("s"))
            if fn.get("resolved"): extra += " {-> %s}" % fn["resolved"]["key"]
        return "%s = %s(%s) -> %s unwind %s%s" % (place_s(t["dest"]), f, ", ".join(op_s(a) for a in t["args"]), "bb%s" % t["target"] if t["target"] is not None else "!", t["unwind"], extra)
    if k == "assert": return "assert(%s == %s, %s) -> bb%d" % (op_s(t["cond"]), t["expected"], t["msg_s"][:50], t["target"])
    if k == "drop": return "drop(%s) -> bb%d unwind %s" % (place_s(t["place"]), t["target"], t["unwind"])
    return k

def dump(fn, out=sys.stdout):
    b = fn["body"]
    out.write("fn %s   [%s:%d]\n" % (fn["key"], fn["span"]["file"], fn["span"]["line"]))
    if not b: return
    for i, l in enumerate(b["locals"]):
        out.write("  let _%d: %s%s%s\n" % (i, l["ty"]["s"], "  // " + l["name"] if l["name"] else "", " (arg)" if l["arg"] else ""))
    for u in b["upvars"]:
        out.write("  upvar %s = %s\n" % (u["name"], place_s(u["place"])))
    for i, bl in enumerate(b["blocks"]):
        out.write("  bb%d%s:\n" % (i, " (cleanup)" if bl["cleanup"] else ""))
        for s in bl["stmts"]:
            if s["k"] == "assign":
                out.write("    %s = %s   // L%d\n" % (place_s(s["place"]), rv_s(s["rv"]), s["span"]["line"]))
            else:
                out.write("    %s\n" % s["k"])
        out.write("    %s   // L%d\n" % (term_s(bl["term"]), bl["term"]["span"]["line"]))

if __name__ == "__main__":
    d = json.load(open(sys.argv[1]))
    pat = sys.argv[2] if len(sys.argv) > 2 else None
    for f in d["fns"]:
        if pat is None:
            print(f["key"], f["kind"], f.get("exported"))
        elif pat in f["key"]:
            dump(f)
