"""Flow-sensitive value provenance (reaching definitions) with alpha-invariant mu-terms for loop-carried
variables, and canonical rendering of terms.  Used by R-SIFT / R-DUAL / R-BOUNDS where the flow-insensitive
VP of core.py would conflate `m` (old position) and `i` (newly selected position)."""
import re

from . import core as _core
from .core import strip, VIEW_CALLS, OPTION_PAYLOAD_COMBINATORS


class Reach:
    """reaching definitions of multiply-defined locals (block level)"""

    def __init__(self, fn):
        self.fn = fn
        self.multi = {l for l, ds in fn.defs.items() if len(ds) > 1 or (fn.locals[l]["arg"] and ds)}
        # definitions per block in order: (local, pos, defid)   pos = stmt index or 'term'
        self.block_defs = {}
        self.defs = {}  # defid -> (local, d)
        for l in self.multi:
            for i, d in enumerate(fn.defs[l]):
                did = (l, i)
                self.defs[did] = d
                bb = d[1]
                pos = d[2] if d[0] == "stmt" else 10 ** 6
                self.block_defs.setdefault(bb, []).append((l, pos, did))
        for bb in self.block_defs:
            self.block_defs[bb].sort(key=lambda x: x[1])
        # feasible reaching definitions: forward exploration over (block, env, current defs) states, pruning
        # the branches that the flag idioms make infeasible (paths.Env); IN[b] = union over the states reaching b
        from .paths import Env, step_stmt, step_call, feasible_succs
        cfg = fn.cfg
        self.IN = {b: {} for b in cfg.reach}
        entry = {l: (l, "param") for l in self.multi if fn.locals[l]["arg"]}
        for l in self.multi:
            entry.setdefault(l, (l, "undef"))
        seen = set()
        work = [(0, Env(), tuple(sorted(entry.items())))]
        nstates = 0
        while work:
            b, env, cur = work.pop()
            key = (b, env.key(), cur)
            if key in seen:
                continue
            seen.add(key)
            nstates += 1
            if nstates > 20000:
                break
            for l, did in cur:
                self.IN[b].setdefault(l, set()).add(did)
            d = dict(cur)
            for (l, pos, did) in self.block_defs.get(b, []):
                d[l] = did
            env = env.copy()
            blk = fn.blocks[b]
            for st in blk["stmts"]:
                step_stmt(env, st)
            if blk["term"]["k"] == "call":
                step_call(env, blk["term"])
            nxt = tuple(sorted(d.items()))
            for s in feasible_succs(fn, b, env):
                if s in self.IN:
                    work.append((s, env, nxt))

    def defs_of(self, l):
        return [did for did in self.defs if did[0] == l]

    def at(self, l, bb, pos):
        """definitions of local l reaching program point (bb, pos) (pos: stmt index, or 10**6 for the terminator)"""
        last = None
        for (l2, p, did) in self.block_defs.get(bb, []):
            if l2 == l and p < pos:
                last = did
        if last is not None:
            return {last}
        return set(self.IN.get(bb, {}).get(l, set()))


class FlowVP:
    def __init__(self, view):
        self.view = view
        self.vp = view.vp
        self._reach = {}
        self._cache = {}

    def reach(self, fn):
        r = self._reach.get(fn.key)
        if r is None:
            r = self._reach[fn.key] = Reach(fn)
        return r

    # ---- evaluation at a program point --------------------------------------------------
    def operand(self, fn, o, bb, pos, stack=()):
        k = o["k"]
        if k in ("copy", "move"):
            return self.place(fn, o["place"], bb, pos, stack)
        return self.vp.operand(fn, o)

    def place(self, fn, pl, bb, pos, stack=()):
        t = self.local(fn, pl["local"], bb, pos, stack)
        for e in pl["proj"]:
            k = e["k"]
            if k == "deref":
                t = self.vp._deref(t)
            elif k == "field":
                t = self.vp._field(fn, t, e) if not (fn.is_closure and pl["local"] == 1) else self.vp._field(fn, t, e)
            elif k == "index":
                t = ("index", t, self.local(fn, e["local"], bb, pos, stack))
            elif k == "downcast":
                t = ("downcast", t, e["name"])
            elif k == "constidx":
                t = ("index", t, ("const", str(e["offset"])))
            else:
                t = ("proj", t, k)
        return t

    def local(self, fn, l, bb, pos, stack=()):
        r = self.reach(fn)
        if l not in r.multi:
            lo = fn.locals[l]
            if lo["arg"]:
                return self.vp.local(fn, l)
            ds = fn.defs.get(l, [])
            if not ds:
                return ("undef", fn.key, l)
            d = ds[0]
            ck = (fn.key, l)
            if ck in self._cache and not stack:
                return self._cache[ck]
            t = self.def_term(fn, d, stack)
            if not stack:
                self._cache[ck] = t
            return t
        dids = r.at(l, bb, pos)
        return self.join(fn, l, dids, stack)

    def join(self, fn, l, dids, stack):
        alts = []
        for did in sorted(dids, key=str):
            key = (fn.key, did)
            if key in stack:
                depth = len(stack) - 1 - stack.index(key)
                alts.append(("rec", depth))
                continue
            if did[1] == "param":
                alts.append(("param", fn.key, l, fn.locals[l]["name"]) if not (fn.is_closure and l >= 2) else self.vp.local(fn, l))
            elif did[1] == "undef":
                alts.append(("undef", fn.key, l))
            else:
                d = self.reach(fn).defs[did]
                alts.append(("defat", (fn.key, d[1]), self.def_term(fn, d, stack + (key,)), did))
        out = []
        for a in alts:
            if a not in out:
                out.append(a)
        if len(out) == 1 and out[0][0] != "rec":
            return out[0]
        return ("mu", tuple(out))

    @staticmethod
    def undefat(t):
        return t[2] if t and t[0] == "defat" else t

    def fresh_def(self, fn, did):
        """the defining term of definition `did`, evaluated with an empty context (canonical at its own site)"""
        d = self.reach(fn).defs[did]
        return self.def_term(fn, d, ())

    def def_term(self, fn, d, stack):
        if d[0] == "stmt":
            bb, si, s = d[1], d[2], d[3]
            return self.rvalue(fn, s["rv"], bb, si, stack)
        bb, t = d[1], d[2]
        key = t["func"]["key"] if "func" in t else "<indirect>"
        args = tuple(self.operand(fn, a, bb, 10 ** 6, stack) for a in t["args"])
        return ("call", key, args, (fn.key, bb))

    def rvalue(self, fn, rv, bb, pos, stack=()):
        k = rv["k"]
        op = lambda o: self.operand(fn, o, bb, pos, stack)
        if k == "use":
            return op(rv["op"])
        if k == "ref":
            p = self.place(fn, rv["place"], bb, pos, stack)
            if p[0] == "deref":
                return p[1]
            return ("ref", p, rv["mut"])
        if k == "rawptr":
            p = self.place(fn, rv["place"], bb, pos, stack)
            return ("rawref", p)
        if k == "binop":
            return ("binop", rv["op"], op(rv["a"]), op(rv["b"]))
        if k == "unop":
            return ("unop", rv["op"], op(rv["a"]))
        if k == "cast":
            return ("cast", rv["kind"], op(rv["op"]), rv["ty"])
        if k == "aggregate":
            ops = tuple(op(o) for o in rv["ops"])
            a = rv["agg"]
            if a == "tuple":
                return ("tuple", ops)
            if a == "adt":
                return ("adt", rv["path"], rv["variant"], ops)
            if a == "array":
                return ("array", ops)
            if a == "closure":
                return ("closure", rv["def"], ops)
            return ("agg", a, ops)
        if k == "discriminant":
            return ("discr", self.place(fn, rv["place"], bb, pos, stack), tuple((v, n) for v, n in rv.get("variants", [])))
        return ("other", k)

    def call_args(self, fn, bb):
        t = fn.term(bb)
        return [self.operand(fn, a, bb, 10 ** 6) for a in t["args"]]

    def call_term(self, fn, bb):
        t = fn.term(bb)
        key = t["func"]["key"] if "func" in t else "<indirect>"
        return ("call", key, tuple(self.call_args(fn, bb)), (fn.key, bb))

    def switch_discr(self, fn, bb):
        t = fn.term(bb)
        return self.operand(fn, t["discr"], bb, 10 ** 6)


# ------------------------------------------------------------------------------------------
# canonical rendering
# ------------------------------------------------------------------------------------------
FLIP = {"gt": "lt", "ge": "le", "Gt": "Lt", "Ge": "Le"}
CMP_NAMES = {"lt", "le", "gt", "ge", "eq", "ne"}


_MU_DEPTH = [0]
GENS = None  # optional callable(mu term) -> iterable of generator shapes (set by Skel)


def _is_queue_or_table(t):
    from .core import component
    t = strip(t)
    while t[0] == "defat":
        t = strip(t[2])
    if t[0] == "param" and t[2] == 1:
        return True
    if component(t):
        return True
    if t[0] == "field" and t[2] in _core.CARRIER:
        return True
    return False


PRIO_CMP_SITES = None  # optional callable(site) -> bool, set by the caller (R-SIFT) to mark comparisons of priorities


def canon(t, closure_body=None, depth=0):
    """alpha-invariant, reference-free, operand-order-normalised string of a term"""
    if not isinstance(t, tuple) or not t:
        return str(t)
    if depth > 40:
        return "…"
    c = lambda x: canon(x, closure_body, depth + 1)
    t = strip(t)
    while t[0] == "defat":
        t = strip(t[2])
    k = t[0]
    if k == "param":
        return "P%d" % t[2]
    if k == "const":
        return t[1].replace("const ", "")
    if k == "fnconst":
        return "fn:" + t[1]
    if k == "field":
        if t[2] == "size" and t[3] == "store::Store":
            return "LEN"
        return "%s.%s" % (c(t[1]), t[2])
    if k == "index":
        return "%s[%s]" % (c(t[1]), c(t[2]))
    if k == "downcast":
        return "%s@%s" % (c(t[1]), t[2])
    if k == "some":
        return "some(%s)" % c(t[1])
    if k == "discr":
        return "discr(%s)" % c(t[1])
    if k == "call" and t[1] == "std::ops::Try::branch" and len(t[2]) == 1:
        return c(t[2][0])   # `x?` tests x
    if k == "call":
        name = t[1]
        short = name.split("::")[-1]
        # every way of asking for the number of elements is the same quantity (representation invariant)
        if short == "len" and len(t[2]) == 1 and _is_queue_or_table(t[2][0]):
            return "LEN"
        if short == "is_empty" and len(t[2]) == 1 and _is_queue_or_table(t[2][0]):
            return "Eq(0_usize,LEN)"
        if name == "std::option::Option::map" and len(t[2]) == 2 and closure_body is not None:
            cl = strip(t[2][1])
            if cl[0] == "closure":
                # `opt.map(|x| body)` is `match opt { None => None, Some(x) => Some(body) }` (the body is rendered in terms of
                # the receiver's payload): the same string as the expanded form
                return "phi{%s}" % "|".join(sorted(["Option::None()", "Option::Some(%s)" % closure_body(cl[1])]))
        args = [c(a) for a in t[2]]
        if short in ("get_unchecked", "get_unchecked_mut", "index", "index_mut") and len(args) == 2:
            return "%s[%s]" % (args[0], args[1])   # element access, checked or not
        pre = "p" if (PRIO_CMP_SITES and len(t) > 3 and t[3] and PRIO_CMP_SITES(t[3])) else ""
        if short in ("gt", "ge") and len(args) == 2 and ("PartialOrd" in name or "cmp" in name):
            return "%s%s(%s,%s)" % (pre, FLIP[short], args[1], args[0])
        if short in ("lt", "le") and len(args) == 2 and ("PartialOrd" in name or "cmp" in name):
            return "%s%s(%s,%s)" % (pre, short, args[0], args[1])
        if short in ("eq", "ne") and len(args) == 2:
            args = sorted(args)
        return "%s(%s)" % (name, ",".join(args))
    if k == "binop":
        op = t[1]
        if op in ("Sub", "SubWithOverflow"):
            # a - b - c == a - c - b for unsigned integers, panics included (either order underflows somewhere iff a < b + c):
            # a chain of subtractions from one base is rendered with its subtrahends sorted
            base, subs = t[2], [t[3]]
            while True:
                x = base
                while isinstance(x, tuple) and x and x[0] in ("site",):
                    x = x[1]
                if isinstance(x, tuple) and x and x[0] == "field" and x[2] in (0, "0") and isinstance(x[1], tuple) and x[1][:2] == ("binop", op) and op == "SubWithOverflow":
                    base, subs = x[1][2], subs + [x[1][3]]
                elif isinstance(x, tuple) and x and x[:2] == ("binop", op) and op == "Sub":
                    base, subs = x[2], subs + [x[3]]
                else:
                    break
            if len(subs) > 1:
                # constants among base and subtrahends are folded when that cannot change the panic behaviour (the constant
                # part alone does not underflow): BITS - lz - 1 == (BITS - 1) - lz == 63 - lz
                cb = c(base)
                cs = [c(x) for x in subs]
                mb = re.fullmatch(r"(\d+)_([ui]\d+|usize|isize)", cb)
                if mb:
                    ksum = 0
                    rest = []
                    for x in cs:
                        mx = re.fullmatch(r"(\d+)_([ui]\d+|usize|isize)", x)
                        if mx and mx.group(2) == mb.group(2):
                            ksum += int(mx.group(1))
                        else:
                            rest.append(x)
                    if ksum and int(mb.group(1)) >= ksum:
                        cb = "%d_%s" % (int(mb.group(1)) - ksum, mb.group(2))
                        cs = rest
                if len(cs) == 1:
                    return "%s(%s,%s)" % (op, cb, cs[0])
                return "%s(%s;%s)" % (op, cb, ",".join(sorted(cs)))
        a, b = c(t[2]), c(t[3])
        if op in FLIP:
            op, a, b = FLIP[op], b, a
        if op == "Le":
            # x <= k  ==  x < k+1 ;  k <= x  ==  k-1 < x   (integer constants only)
            mb = re.fullmatch(r"(\d+)_usize", b)
            ma = re.fullmatch(r"(\d+)_usize", a)
            if mb:
                op, b = "Lt", "%d_usize" % (int(mb.group(1)) + 1)
            elif ma and int(ma.group(1)) >= 1:
                op, a = "Lt", "%d_usize" % (int(ma.group(1)) - 1)
        if op in ("Lt", "Le"):
            return "%s(%s,%s)" % (op, a, b)
        if op in ("Eq", "Ne", "Add", "Mul", "AddWithOverflow", "MulWithOverflow", "BitAnd", "BitOr"):
            a, b = sorted((a, b))
        return "%s(%s,%s)" % (op, a, b)
    if k == "unop":
        return "%s(%s)" % (t[1], c(t[2]))
    if k == "cast":
        return c(t[2])
    if k in ("tuple", "array"):
        return "%s(%s)" % (k, ",".join(c(a) for a in t[1]))
    if k == "adt":
        return "%s::%s(%s)" % (t[1].split("::")[-1], t[2], ",".join(c(a) for a in t[3]))
    if k == "closure":
        body = closure_body(t[1]) if closure_body else t[1]
        return "closure{%s}" % body      # what it captured shows in the body (upvars are resolved to the captured operands)
    if k == "mu":
        # loop-carried value: rendered by the set of one-step generator shapes of the variable(s) it cycles through
        # (copies between loop-carried variables are closed over), independent of where the cycle happened to be cut:
        # `p = parent(p)` and `pp = parent(p); p = pp` are the same thing
        if _MU_DEPTH[0] > 0:
            return "μ"
        _MU_DEPTH[0] += 1
        try:
            alts = set()
            if GENS is not None:
                g = GENS(t)
                if g is not None:
                    alts = set(g)
            if not alts:
                for a in t[1]:
                    alts.add(c(a))
        finally:
            _MU_DEPTH[0] -= 1
        alts = sorted(a for a in alts if a != "μ") or ["μ"]
        return "M{%s}" % "|".join(alts)
    if k == "rec":
        return "μ"
    if k == "phi":
        return "phi{%s}" % "|".join(sorted(c(a) for a in t[4]))
    if k == "cparam":
        return "cparam%d" % t[2]
    if k == "upvar":
        return "upvar%d" % t[2]
    if k == "undef":
        return "undef"
    return "%s(%s)" % (k, ",".join(c(x) if isinstance(x, tuple) else str(x) for x in t[1:]))
