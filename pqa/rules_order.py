"""Order-restoration rules: R-RESTORE (every operation that dirties the heap order re-sifts before it
returns, on every feasible path), R-UPBOTH, R-EXTREME."""
import re

from .core import walk, strip, term_str, component, const_int, STORE
from .paths import explore, path_lines
from .rules_decl import PQ, DPQ, QUEUES, QNAME, root_fn, is_param
from .rules_iter import ret_term, unsite, method

BULK_STORE_FNS = {
    "store::Store::retain": "BULK", "store::Store::retain_mut": "BULK", "store::Store::append": "BULK",
    "<store::Store as Extend<(..)>>::extend": "BULK",
}
STORE_CLEAN = {  # Store functions that cannot invalidate the order of an ordered heap
    "store::Store::len", "store::Store::is_empty", "store::Store::capacity", "store::Store::iter",
    "store::Store::get", "store::Store::get_mut", "store::Store::get_priority", "store::Store::get_priority_from_position",
    "store::Store::reserve", "store::Store::reserve_exact", "store::Store::try_reserve", "store::Store::try_reserve_exact",
    "store::Store::shrink_to_fit", "store::Store::clear", "store::Store::drain", "store::Store::into_vec",
    "store::Store::with_capacity_and_hasher", "store::Store::with_hasher", "store::Store::with_default_hasher",
    "store::Store::with_capacity_and_default_hasher", "<store::Store as IntoIterator>::into_iter",
    "<&store::Store as IntoIterator>::into_iter", "<store::Store as PartialEq<Store>>::eq", "<store::Store as Debug>::fmt",
    "<store::Store as Clone>::clone", "<store::Store as Default>::default", "<store::Store as Serialize>::serialize",
    "store::Store::swap",  # used by the sifts themselves
}
STORE_CTORS_DIRTY = {"<store::Store as From<Vec>>::from", "<store::Store as FromIterator<(..)>>::from_iter",
                     "<store::Store as Deserialize>::deserialize"}


def qmod(Q):
    return Q.rsplit("::", 1)[0]


def queue_functions(view, Q):
    """root functions that belong to queue kind Q (inherent + trait impls + its iterators' methods)"""
    prog = view.prog
    out = []
    m = qmod(Q) + "::"
    for f in prog.fns.values():
        if f.is_closure:
            continue
        st = f.j.get("impl_self") or {}
        while st.get("k") == "ref":
            st = st["inner"]
        p = st.get("path", "")
        if p == Q or p.startswith(m + "iterators::"):
            out.append(f)
    return sorted(out, key=lambda f: f.key)


def pos_is_root(t):
    """position term is heap position 0: Position(0) literal or the result of find_min()"""
    t = strip(t)
    if t[0] == "adt" and t[1].endswith("Position") and len(t[3]) == 1 and const_int(strip(t[3][0])) == 0:
        return True
    if t[0] == "some" and t[1][0] == "call" and t[1][1].endswith("::find_min"):
        return True
    return False


def pos_from_extreme(t):
    t = strip(t)
    return pos_is_root(t) or (t[0] == "some" and t[1][0] == "call" and t[1][1].endswith(("::find_max", "::find_min")))


def same_pos(a, b):
    return unsite_sites(strip(a)) == unsite_sites(strip(b))


def unsite_sites(t):
    # positions are compared including call sites (two different find_max() calls are different values)
    return t


class Dirty:
    def __init__(self, fn, bb, kind, pos, what, span, site_term=None, order=10 ** 6):
        self.fn, self.bb, self.kind, self.pos, self.what, self.span, self.site_term, self.order = fn, bb, kind, pos, what, span, site_term, order


def _same_kind_store(f, Q, t):
    """t is `source.store` with `source` a parameter of type &Q / Q (the same queue kind as the body being analysed)"""
    t = strip(t)
    while t[0] in ("ref", "deref"):
        t = strip(t[1])
    if t[0] == "field" and t[2] == "store" and t[3] == Q:
        b = strip(t[1])
        while b[0] in ("ref", "deref"):
            b = strip(b[1])
        return b[0] == "param"
    return False


def dirty_events(view, Q, f):
    """dirty events in body f (a root function of queue kind Q or one of its closures)"""
    prog = view.prog
    fx = view.fx
    vp = view.vp
    out = []
    for ev in fx.events(f):
        k = ev["kind"]
        if k == "call":
            callee = ev["callee"]
            ci = ev["ci"]
            args = fx.args_vp(ci)
            site = vp.call_term(f, ev["bb"], ci.t)
            if callee in BULK_STORE_FNS:
                out.append(Dirty(f, ev["bb"], "BULK", None, callee, ev["span"], site))
            elif callee in STORE_CTORS_DIRTY:
                pass  # handled at the point where the Store becomes a queue (aggregate construction)
            elif callee == "store::Store::change_priority":
                out.append(Dirty(f, ev["bb"], "ANY", ("field", ("some", site), 1, None), callee, ev["span"], site))
            elif callee == "store::Store::change_priority_by":
                out.append(Dirty(f, ev["bb"], "ANY", ("some", site), callee, ev["span"], site))
            elif callee == "store::Store::swap_remove":
                out.append(Dirty(f, ev["bb"], "REPL", args[1], callee, ev["span"], site))
            elif callee == "store::Store::swap_remove_if":
                out.append(Dirty(f, ev["bb"], "PRED", args[1], callee, ev["span"], site))
            elif callee == "store::Store::remove":
                out.append(Dirty(f, ev["bb"], "REMOVED", ("field", ("some", site), 2, None), callee, ev["span"], site))
            elif callee == "<store::Store as Clone>::clone_from" and len(args) >= 2 and _same_kind_store(f, Q, args[1]):
                pass   # overwritten by a copy of the store of a queue of the SAME kind: ordered for this kind
            elif callee.startswith("store::Store::") or callee.startswith("<store::Store as"):
                if callee not in STORE_CLEAN:
                    eff = fx.effects.get(callee, set())
                    if eff & {"TW", "MW"}:
                        out.append(Dirty(f, ev["bb"], "BULK", None, "%s (unclassified Store primitive with effects %s)" % (
                            callee, sorted(e for e in eff if ":" not in e)), ev["span"], site))
        elif k in ("mw", "mr") and ev.get("mclass") in ("valmut", "keymut") or (k == "mw" and ev.get("via_entry") and ev.get("mclass") == "valmut"):
            # a `&mut P` obtained inside queue-level code: dirty iff something is written through it
            ci = ev["ci"]
            site = vp.call_term(f, ev["bb"], ci.t)
            w = written_through(view, f, site)
            if w:
                out.append(Dirty(f, ev["bb"], "ANYQP", None, "%s then %s" % (ev["key"], w), ev["span"], site))
        elif k == "tw" and ev["comp"] == "heap" and ev.get("how") == "call:push":
            out.append(Dirty(f, ev["bb"], "LEAF", ev["idx"], "heap.push(new leaf)", ev["span"], None))
    # a Store that becomes a queue: `Q { store }` literal with a store that is not a fresh empty one
    for bi, b in enumerate(f.blocks):
        if b["cleanup"]:
            continue
        for si, s in enumerate(b["stmts"]):
            if s["k"] == "assign" and s["rv"]["k"] == "aggregate" and s["rv"].get("agg") == "adt" and s["rv"].get("path") == Q:
                st = vp.operand(f, s["rv"]["ops"][0])
                fresh = st[0] == "call" and st[1].split("::")[-1] in ("with_capacity_and_hasher", "with_hasher", "with_default_hasher",
                                                                        "with_capacity_and_default_hasher", "default")
                # a clone of the store of a queue of the SAME kind is ordered for this kind
                if st[0] == "call" and st[1].split("::")[-1] == "clone" and st[2]:
                    src = strip(st[2][0])
                    if src[0] == "field" and src[2] == "store" and strip(src[1])[0] == "param":
                        pty = f.local_ty(strip(src[1])[2])
                        while pty.get("k") == "ref":
                            pty = pty["inner"]
                        fresh = pty.get("path") == Q
                if not fresh:
                    out.append(Dirty(f, bi, "BULK", None, "%s { store: %s } (a Store ordered for nobody, or for the other queue kind)" % (
                        QNAME[Q], term_str(st)[:80]), s["span"], None, order=si))
    return out


def written_through(view, f, site):
    """is the &mut obtained at `site` written through?  -> description or None"""
    vp = view.vp
    prog = view.prog
    for g in prog.family(root_fn(prog, f).key):
        for bi, b in enumerate(g.blocks):
            if b["cleanup"]:
                continue
            for s in b["stmts"]:
                if s["k"] == "assign" and s["place"]["proj"] and s["place"]["proj"][0]["k"] == "deref":
                    t = vp.place(g, s["place"])
                    if contains(t, site) and not t_is_field_key(t):
                        return "assignment through it at line %d" % s["span"]["line"]
            t = b["term"]
            if t["k"] == "call" and "func" in t:
                key = t["func"]["key"]
                if key in ("std::mem::replace", "std::mem::swap", "std::mem::take", "std::ptr::write") or (
                        t["func"].get("trait", "") or "").startswith("std::ops::Fn"):
                    for a in t["args"]:
                        at = vp.operand(g, a)
                        aty = a["place"]["ty"] if a["k"] in ("copy", "move") else ""
                        if contains(at, site) and ("&mut" in aty or (t["func"].get("trait") or "").startswith("std::ops::Fn")):
                            return "%s at line %d" % (key, t["span"]["line"])
    return None


def t_is_field_key(t):
    return False


def contains(t, sub):
    for x in walk(t):
        if x == sub:
            return True
    return False


def restorer_calls(view, Q, f):
    """calls in body f to the order-restoring functions of Q -> list of (bb, name, args_vp, site_term);
    calls to other private functions of Q are listed as ('helper:<key>') and judged by analysing the callee"""
    out = []
    for bb, t in f.calls():
        ci = view.fx.call_info(f, bb)
        c = ci.local_callee
        if c and c.startswith(Q + "::") and c.split("::")[-1] in ("heapify", "up_heapify", "heap_build", "bubble_up"):
            out.append((bb, c.split("::")[-1], view.fx.args_vp(ci), view.vp.call_term(f, bb, t)))
        elif c and c.startswith(Q + "::") and not view.prog.fn(c).exported and c != root_fn(view.prog, f).key:
            out.append((bb, "helper:" + c, view.fx.args_vp(ci), view.vp.call_term(f, bb, t)))
    return out


_HELPER_MEMO = {}


def helper_restores(view, Q, d, callee_key, args):
    """a private helper called after the dirty event: does its body, entered dirty, restore on every feasible path?
    The event's position must be passed as one of its arguments (it becomes that parameter inside)."""
    callee = view.prog.fn(callee_key)
    if callee is None:
        return False
    pidx = None
    if d.pos is not None:
        for i, a in enumerate(args):
            if same_pos(a, d.pos):
                pidx = i + 1
    elif d.kind != "BULK":
        return False
    memo = (view.config, id(view), callee_key, d.kind, pidx)
    if memo in _HELPER_MEMO:
        return _HELPER_MEMO[memo]
    _HELPER_MEMO[memo] = False
    if d.kind != "BULK" and pidx is None:
        return False
    pos = ("param", callee.key, pidx, callee.locals[pidx]["name"]) if pidx else None
    d2 = Dirty(callee, -1, d.kind, pos, d.what, callee.span, None)
    rcalls = restorer_calls(view, Q, callee)
    edges, _ = vacuity_edges(view, Q, callee, d2)
    ok = {}
    for (bb, name, a2, site) in rcalls:
        if name.startswith("helper:"):
            if helper_restores(view, Q, d2, name[7:], a2):
                ok[bb] = name
        elif acceptable(view, Q, d2, name, a2, rcalls, site):
            ok[bb] = name
    res = False
    if ok:
        def step(st, tag, bb):
            return 2 if tag == "R" else st
        bad = explore(callee, {bb: ["R"] for bb in ok}, 1, step, lambda st: st == 1, stop_edges=edges)
        res = not bad
    _HELPER_MEMO[memo] = res
    return res


def qp_read(t):
    """does the term read the qp table (position of a known slot)?"""
    for x in walk(t):
        if x[0] == "call" and x[1].split("::")[-1] in ("get_unchecked", "get", "index") and x[2] and component(x[2][0]) and component(x[2][0])[0] == "qp":
            return True
        if x[0] == "index" and component(x[1]) and component(x[1])[0] == "qp":
            return True
    return False


def acceptable(view, Q, d, name, args, rcalls, rsite):
    """is restorer `name(args)` sufficient for dirty event d ?  -> (bool, needs_followup)
    needs_followup: for bubble_up-based composites, the list of further restorers that must follow."""
    kind = d.kind
    if name == "heap_build":
        return True
    pos = args[1] if len(args) > 1 else None
    if kind == "BULK":
        return False
    if kind == "ANYQP":
        return name == "up_heapify" and pos is not None and qp_read(pos)
    if kind == "LEAF":
        # new leaf at the last position: Position(n) with heap.push(Index(n))
        n = leaf_n(d.pos)
        p = leaf_n(pos) if pos is not None else None
        return name in ("bubble_up", "up_heapify") and n is not None and p is not None and strip(n) == strip(p)
    if pos is None or not same_pos(pos, d.pos):
        return False
    if kind in ("ANY", "REMOVED"):
        return name == "up_heapify"
    if kind == "REPL":
        if name == "up_heapify":
            return True
        return name == "heapify" and pos_from_extreme(d.pos)
    if kind == "PRED":
        if name == "up_heapify":
            return True
        return name == "heapify" and pos_is_root(d.pos)
    return False


def leaf_n(t):
    if t is None:
        return None
    t = strip(t)
    if t[0] == "adt" and len(t[3]) == 1:
        return t[3][0]
    return None


def vacuity_edges(view, Q, f, d):
    """edges (bb, target) on which restoring after d is vacuous, and blocks whose dominance makes d itself vacuous"""
    vp = view.vp
    edges = set()
    vac_targets = set()
    for bi in sorted(f.cfg.reach):
        t = f.term(bi)
        if t["k"] != "switch":
            continue
        disc = strip(vp.operand(f, t["discr"]))
        # (a) `pos.0 < len` guarding the re-sift after Store::remove: on the false edge the removed
        #     element was the last leaf and nothing moved
        if d.kind == "REMOVED" and disc[0] == "binop" and disc[1] in ("Lt", "Ge", "Gt", "Le"):
            a, b = disc[2], disc[3]
            op = disc[1]
            if op in ("Gt", "Le"):
                a, b = b, a
                op = {"Gt": "Lt", "Le": "Ge"}[op]
            if is_pos0(a, d.pos) and is_len_term(b, Q):
                zero = [tb for v, tb in t["targets"] if v == 0]
                if op == "Lt" and zero:
                    edges.add((bi, zero[0]))
                if op == "Ge":
                    edges.add((bi, t["otherwise"]))
        # (a') the None edge of the Option returned by the keyed Store primitive: the item was absent, nothing changed
        if d.kind in ("ANY", "REMOVED") and d.site_term is not None and disc[0] == "discr" and contains(disc, d.site_term):
            from .core import edge_presence
            for tb in f.cfg.succ[bi]:
                if edge_presence(disc, t, tb) == "absent":
                    edges.add((bi, tb))
        # (a'b) the same for a `&mut P` looked up in queue-level code (an inlined new Store helper: `map.get_full_mut(k).map(|..| write)`):
        #       on the None edge of the lookup ITSELF there is no reference to write through
        if d.kind == "ANYQP" and d.site_term is not None and disc[0] == "discr" and _is_term(disc[1], d.site_term):
            from .core import edge_presence
            for tb in f.cfg.succ[bi]:
                if edge_presence(disc, t, tb) == "absent":
                    edges.add((bi, tb))
        # (a'') a test made AFTER the event that the queue is empty: `if !self.is_empty() { heap_build() }`
        dd = disc
        negd = False
        if dd[0] == "unop" and dd[1] == "Not":
            dd = strip(dd[2])
            negd = True
        if dd[0] == "call" and dd[1].split("::")[-1] == "is_empty" and dd[1].startswith((Q, "store::Store")) and bi != d.bb and (
                bi in f.cfg.reachable_from(d.bb)) and not f.cfg.dominates(bi, d.bb):
            zero = [tb for v, tb in t["targets"] if v == 0]
            empty_target = (zero[0] if zero else None) if negd else t["otherwise"]
            if empty_target is not None:
                edges.add((bi, empty_target))
        # (a3) any boolean test that pins the length to <= 1 on one edge (`if len > 1 { heapify(..) }`): with at most one
        #      element (before or after the event) every arrangement is ordered
        if disc[0] in ("binop", "call", "unop") and len(f.cfg.succ[bi]) == 2:
            try:
                from .rules_sift import Skel, normalise_bool
                from .flowvp import canon as _canon
                zero_t = [tb for v, tb in t["targets"] if v == 0]
                for truth, tb in ((True, t["otherwise"]), (False, zero_t[0] if zero_t else None)):
                    if tb is None:
                        continue
                    dd2, tr = disc, truth
                    while dd2[0] == "unop" and dd2[1] == "Not":
                        dd2, tr = strip(dd2[2]), not tr
                    txt, pol = normalise_bool(_canon(dd2), tr)
                    mm = re.match(r"^(LE|EQ)\(LEN,(\d+)\)$", txt)
                    if mm and pol and int(mm.group(2)) <= 1:
                        edges.add((bi, tb))
            except Exception:
                pass
        # (b) `match self.len() { 0 | 1 => .. }`: with at most one element left, any arrangement is ordered
        if disc[0] == "call" and disc[1].endswith("::len") and is_self_len(disc, Q):
            limit = 2 if d.kind == "REPL" else 1
            for v, tb in t["targets"]:
                if v <= limit:
                    vac_targets.add(tb)
    return edges, vac_targets


def _is_term(t, site):
    t = strip(t)
    while isinstance(t, tuple) and t and t[0] in ("ref", "deref", "rawref"):
        t = strip(t[1])
    return t == strip(site)


def is_pos0(t, pos):
    t = strip(t)
    return t[0] == "field" and t[2] in (0, "0") and same_pos(t[1], pos)


def is_self_len(t, Q):
    return t[0] == "call" and t[1] in (Q + "::len", "store::Store::len")


def is_len_term(t, Q):
    t = strip(t)
    if is_self_len(t, Q):
        return True
    c = component(t)
    return bool(c and c[0] == "size")


def check_event(view, Q, d, in_up_heapify=False):
    """every feasible normal path from d to the return of its body passes an acceptable restorer"""
    f = d.fn
    prog = view.prog
    rcalls = restorer_calls(view, Q, f)
    marks = {}
    # continuation closures: Option::map(result_of_d, closure) where the closure must-pass a restorer
    cont = continuation_restorers(view, Q, d)
    edges, vac_targets = vacuity_edges(view, Q, f, d)
    for vt in vac_targets:
        if f.cfg.dominates(vt, d.bb) and len([p for p in f.cfg.pred[vt] if p in f.cfg.reach]) == 1:
            return True, "vacuous: at most one element remains on this arm (`match self.len()`)", None
    # the same fact established by comparisons (`let n = self.len(); if n == 0 {..} else if n == 1 {..}`)
    if d.kind in ("REPL", "PRED"):
        try:
            from .rules_bounds import RB
            fa = RB(view).facts(f, d.bb)
            limit = 2 if d.kind == "REPL" else 1
            le = getattr(fa, "len_le", None)
            eq = getattr(fa, "len_eq", None)
            if (le is not None and le <= limit) or (eq is not None and eq <= limit):
                return True, "vacuous: len <= %d is known before the removal" % limit, None
        except Exception:
            pass
    okblocks = {}
    composite = None
    for (bb, name, args, site) in rcalls:
        if name.startswith("helper:"):
            if helper_restores(view, Q, d, name[7:], args):
                okblocks[bb] = "helper " + name[7:].split("::")[-1]
            continue
        if acceptable(view, Q, d, name, args, rcalls, site):
            okblocks[bb] = name
        elif name == "bubble_up" and d.kind in ("ANY", "ANYQP", "REMOVED", "PRED", "REPL") and len(args) > 1 and (
                (d.pos is not None and same_pos(args[1], d.pos)) or (d.kind == "ANYQP" and qp_read(args[1]))):
            composite = (bb, args, site)
    for bb in cont:
        okblocks[bb] = "continuation"
    if composite and not okblocks:
        return check_composite(view, Q, d, composite, rcalls)
    if d.bb in okblocks and okblocks[d.bb] == "continuation":
        pass
    # typestate: 0 = before event, 1 = dirty, 2 = restored
    marks = {}
    for bb in okblocks:
        marks.setdefault(bb, []).append("R")
    marks.setdefault(d.bb, []).insert(0, "D")  # the event precedes a restorer in the same block only if it is a statement

    def step(st, tag, bb):
        if tag == "D":
            return 1
        if tag == "R" and st == 1:
            return 2
        return st

    bad = explore(f, marks, 0, step, lambda st: st == 1, stop_edges=edges)
    if not bad:
        how = sorted(set(okblocks.values()))
        return True, "restored on every feasible path by %s%s" % ("/".join(how), " (skip allowed only where nothing moved)" if edges else ""), None
    return False, "a feasible normal path leaves the order dirty: %s" % path_lines(f, bad[0][1]), bad[0][1]


def check_composite(view, Q, d, composite, rcalls):
    """inline up-heapify: q = bubble_up(p, _); heapify(q) [; heapify(p) for the double queue]"""
    f = d.fn
    bb0, args0, site0 = composite
    need = [("heapify", site0)]
    if Q == DPQ:
        need.append(("heapify", args0[1]))
    for (nm, target) in need:
        blocks = [bb for (bb, name, args, site) in rcalls if name == nm and len(args) > 1 and strip(args[1]) == strip(target)]
        if not blocks:
            return False, "inline sift: after bubble_up the %s of %s is missing" % (nm, term_str(target)[:60]), None
        p = f.cfg.escape_path(bb0, set(blocks))
        if p is not None:
            # a guard `i != pos` around heapify(p) is acceptable for the second one
            if target is not site0 and guarded_by_ne(view, f, blocks, args0[1], site0):
                continue
            return False, "inline sift: a path after bubble_up skips %s(%s): %s" % (nm, term_str(target)[:40], p), p
    # and bubble_up itself on every path from the event
    p = f.cfg.escape_path(d.bb, {bb0}) if d.bb != bb0 else None
    if p is not None:
        return False, "a path from the event avoids bubble_up: %s" % p, p
    return True, "restored by the inline composite bubble_up + heapify", None


def guarded_by_ne(view, f, blocks, p, q):
    """heapify(p) skipped only on the edge where p == q"""
    vp = view.vp
    for bi in sorted(f.cfg.reach):
        t = f.term(bi)
        if t["k"] != "switch":
            continue
        d = strip(vp.operand(f, t["discr"]))
        if d[0] == "call" and d[1].split("::")[-1] in ("ne", "eq") and len(d[2]) == 2:
            a, b = strip(d[2][0]), strip(d[2][1])
            if {repr(strip(a)), repr(strip(b))} == {repr(strip(p)), repr(strip(q))}:
                tgt_true = t["otherwise"]
                zero = [tb for v, tb in t["targets"] if v == 0]
                if d[1].endswith("ne"):
                    # true edge must lead to heapify(p)
                    if any(bb == tgt_true or bb in f.cfg.reachable_from(tgt_true) for bb in blocks):
                        esc = f.cfg.escape_path(bi, set(blocks), stop_edges={(bi, zero[0])} if zero else None)
                        if esc is None:
                            return True
    return False


def continuation_restorers(view, Q, d):
    """blocks of d.fn holding a call Option::{map,and_then,..}(X, closure) where X derives from d's call
    and the closure body must-pass an acceptable restorer from its entry"""
    out = set()
    if d.site_term is None:
        return out
    f = d.fn
    prog = view.prog
    from .core import OPTION_PAYLOAD_COMBINATORS
    for bb, t in f.calls():
        if "func" not in t or t["func"]["key"] not in OPTION_PAYLOAD_COMBINATORS:
            continue
        recv = view.vp.operand(f, t["args"][0])
        if not contains(recv, d.site_term):
            continue
        for a in t["args"][1:]:
            ty = f.local_ty(a["place"]["local"]) if a["k"] in ("copy", "move") and not a["place"]["proj"] else None
            if ty and ty.get("k") == "closure":
                cl = prog.fn(ty["def"])
                if cl and closure_restores(view, Q, d, cl):
                    out.add(bb)
    return out


def closure_restores(view, Q, d, cl):
    rcalls = restorer_calls(view, Q, cl)
    edges, _ = vacuity_edges(view, Q, cl, d)
    ok = {bb for (bb, name, args, site) in rcalls if (helper_restores(view, Q, d, name[7:], args) if name.startswith("helper:")
                                                     else acceptable(view, Q, d, name, args, rcalls, site))}
    if not ok:
        return False

    def step(st, tag, bb):
        return 2 if tag == "R" else st

    bad = explore(cl, {bb: ["R"] for bb in ok}, 1, step, lambda st: st == 1, stop_edges=edges)
    return not bad


def r_restore(ctx, view, Q, only=None):
    """one obligation per dirty event in every function of queue kind Q"""
    prog = view.prog
    ctx.cur = view
    n = 0
    for root in queue_functions(view, Q):
        if root.name in ("heapify", "bubble_up", "heapify_min", "heapify_max", "bubble_up_min", "bubble_up_max", "heap_build", "up_heapify"):
            continue  # the restorers themselves (R-UPBOTH / R-SIFT look inside them)
        for f in prog.family(root.key):
            evs = dirty_events(view, Q, f)
            seen = {}
            for d in evs:
                if only and not only(root, d):
                    continue
                ok, why, path = check_event(view, Q, d)
                idx = seen.setdefault((f.key, d.kind, d.what.split(" ")[0]), 0)
                seen[(f.key, d.kind, d.what.split(" ")[0])] += 1
                key = "%s:%s:%s%s" % (short(f.key), d.kind, d.what.split(" ")[0].split("::")[-1], "#%d" % idx if idx else "")
                n += 1
                ctx.ob("R-RESTORE", key, ok, f.loc(d.span), "%s [%s at %s]: %s" % (d.kind, d.what[:90], term_str(d.pos)[:60] if d.pos else "-", why))
    # IterMut of this queue kind: the &mut P it hands out are re-ordered by Drop
    itm = qmod(Q) + "::iterators::IterMut"
    di = [i for i in prog.impls if i.get("trait") == "std::ops::Drop" and i["self_desc"] == itm]
    ok = False
    why = "no Drop impl for %s" % itm
    loc = ""
    if di:
        dfn = method(prog, di[0], "drop")
        loc = dfn.loc()
        hb = [bb for (bb, name, args, site) in restorer_calls(view, Q, dfn) if name == "heap_build" and args and strip(args[0])[0] == "field" and strip(args[0])[2] in (prog.carrier_fields - {"store"})]
        esc = dfn.cfg.escape_path(0, set(hb)) if hb and 0 not in hb else (None if hb else [0])
        ok = bool(hb) and esc is None
        why = "Drop::drop calls heap_build(self.pq) on every path" if ok else "a path through Drop::drop avoids heap_build(self.pq): %s" % esc
    n += 1
    ctx.ob("R-RESTORE", "%s::IterMut:BULK:drop-rebuilds" % QNAME[Q], ok, loc, why)
    return n


def short(key):
    return key.replace("double_priority_queue::", "dpq::").replace("priority_queue::", "pq::").replace("store::", "")


# ------------------------------------------------------------------------------------------
# R-UPBOTH: up_heapify itself re-sifts both ends of the move
# ------------------------------------------------------------------------------------------
def r_upboth(ctx, view, Q):
    prog = view.prog
    ctx.cur = view
    f = prog.fn(Q + "::up_heapify")
    ctx.anchor(Q + "::up_heapify", f is not None)
    rc = restorer_calls(view, Q, f)
    bu = [(bb, args, site) for (bb, name, args, site) in rc if name == "bubble_up" and len(args) > 1 and is_param(args[1], 2)]
    ok, why = False, "up_heapify(i) must start with bubble_up(i, heap[i])"
    if bu:
        bb0, args0, site0 = bu[0]
        # carried index must be heap[i]
        carried = strip(args0[2]) if len(args0) > 2 else ("none",)
        carried_ok = False
        for x in walk(args0[2]) if len(args0) > 2 else ():
            if x[0] == "call" and x[1].split("::")[-1] in ("get_unchecked", "get", "index") and x[2] and component(x[2][0]) and component(x[2][0])[0] == "heap":
                idx = strip(x[2][1])
                if idx[0] == "field" and is_param(idx[1], 2):
                    carried_ok = True
        d = Dirty(f, bb0, "ANY", args0[1], "up_heapify body", f.span, None)
        ok, why, _ = check_composite(view, Q, d, (bb0, args0, site0), rc)
        # the only legitimate way to skip everything is the checked read `heap.get(i)` returning None (i out of range)
        esc = f.cfg.escape_path(0, {bb0}) if bb0 != 0 else None
        if esc is not None and not skip_is_checked_get(view, f, esc):
            ok, why = False, "a path avoids bubble_up altogether: %s" % esc
        if not carried_ok:
            ok, why = False, "bubble_up must carry heap[i] (found %s)" % term_str(carried)[:80]
    ctx.ob("R-UPBOTH", "%s::up_heapify" % QNAME[Q], ok, f.loc(), why)


def skip_is_checked_get(view, f, path):
    """the path that skips the sift leaves through the None edge of `heap.get(i.0)`"""
    vp = view.vp
    for bi in path:
        t = f.term(bi)
        if t["k"] == "switch":
            d = strip(vp.operand(f, t["discr"]))
            if d[0] == "discr":
                x = strip(d[1])
                if x[0] == "call" and x[1].split("::")[-1] == "get" and x[2] and component(x[2][0]) and component(x[2][0])[0] == "heap":
                    return True
    return False


# ------------------------------------------------------------------------------------------
# R-EXTREME: all accessors of one extreme address the same position; empty queue -> None
# ------------------------------------------------------------------------------------------
EXTREME_GROUPS = {
    PQ: {"max": ["peek", "peek_mut", "pop", "pop_if"]},
    DPQ: {"min": ["peek_min", "peek_min_mut", "pop_min", "pop_min_if"], "max": ["peek_max", "peek_max_mut", "pop_max", "pop_max_if"]},
}


def addressed_positions(view, Q, root):
    """positions (VP terms, normalised) that the accessor reads / removes from the heap"""
    prog = view.prog
    out = []
    for f in prog.family(root.key):
        for bb, t in f.calls():
            ci = view.fx.call_info(f, bb)
            args = view.fx.args_vp(ci)
            if ci.local_callee in ("store::Store::swap_remove", "store::Store::swap_remove_if"):
                out.append(("remove", args[1], f, t))
            elif "func" in t and t["func"]["name"] in ("get_unchecked", "get", "first") and args and component(args[0]) and component(args[0])[0] == "heap":
                pos = args[1] if len(args) > 1 else ("adt", "store::Position", "Position", (("const", "0"),))
                out.append(("read", pos, f, t))
    return out


def norm_extreme(Q, t):
    """normalise an addressed position to 'root' / 'find_min' / 'find_max' / other"""
    t = strip(t)
    if t[0] == "field" and t[2] in (0, "0"):
        t = strip(t[1])
    if t[0] == "const" and const_int(t) == 0:
        return "root"
    if t[0] == "adt" and t[1].endswith("Position") and const_int(strip(t[3][0])) == 0:
        return "root"
    if t[0] == "some" and t[1][0] == "call":
        nm = t[1][1].split("::")[-1]
        if nm == "find_min":
            return "find_min"
        if nm == "find_max":
            return "find_max"
    return "other:" + term_str(t)[:60]


def r_extreme(ctx, view, Q, only=None):
    prog = view.prog
    ctx.cur = view
    for side, names in EXTREME_GROUPS[Q].items():
        want = {"root"} if Q == PQ else {"find_" + side}
        for nm in names:
            if only and nm not in only:
                continue
            f = prog.fn("%s::%s" % (Q, nm))
            ctx.anchor("%s::%s" % (Q, nm), f is not None)
            ps = addressed_positions(view, Q, f)
            got = {norm_extreme(Q, p[1]) for p in ps}
            ok = bool(ps) and got <= want
            ctx.ob("R-EXTREME", "%s::%s:addresses-%s" % (QNAME[Q], nm, side), ok, f.loc(),
                   "addresses heap position(s) %s; the %s accessors must all use %s" % (sorted(got), side, sorted(want)))
            # empty queue -> None: guarded by len()==0 / size==0 / find_* / heap.first()
            ok2, why2 = none_on_empty(view, Q, f)
            ctx.ob("R-EXTREME", "%s::%s:none-on-empty" % (QNAME[Q], nm), ok2, f.loc(), why2)
    if Q == DPQ:
        r_findmax(ctx, view)   # find_min / find_max themselves: the table of returned positions by length


def none_on_empty(view, Q, f):
    r = ret_term(view, f)
    # (a) result computed by Option combinator on find_min()/find_max()/heap.first()
    for x in walk(r):
        if x[0] == "call" and x[1].split("::")[-1] in ("and_then", "map"):
            recv = strip(x[2][0])
            for y in walk(recv):
                if y[0] == "call" and y[1].split("::")[-1] in ("find_min", "find_max", "first"):
                    return True, "None propagates from %s on the empty queue" % y[1].split("::")[-1]
    # (a') `let i = self.find_min()?;`
    for bb, t in f.calls():
        if "func" in t and t["func"]["key"] == "std::ops::Try::branch":
            a = strip(view.vp.operand(f, t["args"][0]))
            if a[0] == "call" and a[1].split("::")[-1] in ("find_min", "find_max", "first"):
                return True, "`%s()?` returns None on the empty queue" % a[1].split("::")[-1]
    # (a'') explicit `match self.find_max() { Some(i) => .., None => None }`
    from .core import edge_presence
    for bi in sorted(f.cfg.reach):
        t = f.term(bi)
        if t["k"] == "switch":
            d = strip(view.vp.operand(f, t["discr"]))
            if d[0] == "discr" and any(x[0] == "call" and x[1].split("::")[-1] in ("find_min", "find_max", "first") for x in walk(d)):
                for nb in f.cfg.succ[bi]:
                    if edge_presence(d, t, nb) == "absent" and returns_none(view, f, nb):
                        return True, "the None arm of the match on find_*() returns None"
    # (b) explicit test of len()/size against 0 dominating the access, returning None
    vp = view.vp
    for bi in sorted(f.cfg.reach):
        t = f.term(bi)
        if t["k"] != "switch":
            continue
        d = strip(vp.operand(f, t["discr"]))
        if d[0] == "call" and is_self_len(d, Q):
            for v, tb in t["targets"]:
                if v == 0 and returns_none(view, f, tb):
                    return True, "`match self.len()` arm 0 returns None"
        if d[0] == "binop" and d[1] in ("Eq",) and is_len_term(d[2], Q) and const_int(strip(d[3])) == 0:
            if returns_none(view, f, t["otherwise"]):
                return True, "`if size == 0` returns None"
        if d[0] == "call" and d[1].split("::")[-1] == "is_empty" and d[1].startswith((Q, "store::Store")):
            if returns_none(view, f, t["otherwise"]):
                return True, "`if is_empty()` returns None"
    return False, "no recognised empty-queue guard yielding None (result %s)" % term_str(r)[:80]


def returns_none(view, f, bb):
    seen = set()
    while bb not in seen:
        seen.add(bb)
        b = f.blocks[bb]
        for s in b["stmts"]:
            if s["k"] == "assign" and s["place"]["local"] == 0 and not s["place"]["proj"]:
                return s["rv"]["k"] == "aggregate" and s["rv"].get("variant") == "None"
        # one way on (in the CFG with constant conditions folded and literal Options threaded past their match)
        nx = f.cfg.succ[bb] if bb < len(f.cfg.succ) else []
        if len(nx) == 1:
            bb = nx[0]
        else:
            return False
    return False


def r_findmax(ctx, view):
    """find_max: len 0 -> None, 1 -> Some(0), 2 -> Some(1), >= 3 -> the larger of positions 1 and 2;
    find_min: 0 -> None, otherwise Some(0) - read off the guarded RETURN facts, so any branching style is accepted"""
    from .rules_sift import Skel
    prog = view.prog
    sk = Skel(view)
    for name, want in (("find_max", {0: "None", 1: "Some(0)", 2: "Some(1)", 3: "Some(max{1,2})", 7: "Some(max{1,2})"}),
                       ("find_min", {0: "None", 1: "Some(0)", 2: "Some(0)", 3: "Some(0)", 7: "Some(0)"})):
        f = prog.fn(DPQ + "::" + name)
        ctx.anchor(name, f is not None)
        facts = [x for x in sk.skeleton(f) if x.startswith("RETURN ") and "  WHEN " in x]
        table = {}
        bad = []
        for n in want:
            vals = set()
            for x in facts:
                val, cond = x[len("RETURN "):].split("  WHEN ", 1)
                if cond_holds(cond, n):
                    vals.add(render_return(val, n))
            table[n] = sorted(vals)
            if want[n] == "Some(max{1,2})" and vals == {"Some(1)", "Some(2)"}:
                # the explicit form: one comparison of the two children's priorities decides which is returned
                why = explicit_max(facts, n)
                if why is None:
                    table[n] = ["Some(max{1,2}) by an explicit comparison"]
                    continue
                bad.append("len %d -> %s" % (n, why))
                continue
            if vals != {want[n]}:
                bad.append("len %d -> %s (expected %s)" % (n, sorted(vals), want[n]))
        ctx.ob("R-EXTREME", "DoublePriorityQueue::%s:arms" % name, not bad, f.loc(),
               "%s by length: %s" % (name, table) if not bad else "; ".join(bad))


def explicit_max(facts, n):
    """RETURN Some(1) / Some(2) facts at length n: None if child a is returned exactly when its priority is greater (or
    not smaller) than the other's, else a description of what is wrong"""
    P = {1: None, 2: None}
    got = {}
    for x in facts:
        val, cond = x[len("RETURN "):].split("  WHEN ", 1)
        if not cond_holds(cond, n):
            continue
        r = render_return(val, n)
        if r not in ("Some(1)", "Some(2)"):
            continue
        lits = [l for l in cond.split(" & ") if "plt(" in l]
        got.setdefault(int(r[5]), []).append(lits)
    if set(got) != {1, 2} or any(len(v) != 1 or len(v[0]) != 1 for v in got.values()):
        return "the two children are not chosen by exactly one priority comparison (%s)" % got
    def parse(l):
        neg = l.startswith("!")
        body = l[1:] if neg else l
        m = re.match(r"^plt\((.*)\)$", body)
        if not m:
            return None
        from .rules_sift import split_top
        a, b = split_top(m.group(1))
        def child(t):
            mm = re.search(r"get_priority_from_position\(P1\.store,Position::Position\((\d)_usize\)\)$", t)
            return int(mm.group(1)) if mm else None
        return neg, child(a), child(b)
    p1, p2 = parse(got[1][0][0]), parse(got[2][0][0])
    if not p1 or not p2 or None in p1[1:] or None in p2[1:]:
        return "the comparison is not between the priorities of positions 1 and 2 (%s | %s)" % (got[1][0][0], got[2][0][0])
    # meaning of (neg, a, b): prio(a) < prio(b) [neg False] / prio(a) >= prio(b) [neg True]
    def says_not_smaller(p, who):
        neg, a, b = p
        other = 3 - who
        if not neg and (a, b) == (other, who):
            return True    # other < who
        if neg and (a, b) == (who, other):
            return True    # !(who < other)
        return False
    ok1, ok2 = says_not_smaller(p1, 1), says_not_smaller(p2, 2)
    if ok1 and ok2 and (p1[0] != p2[0]) and {p1[1], p1[2]} == {1, 2}:
        return None
    return "child 1 is returned when %s, child 2 when %s: not the greater of the two" % (got[1][0][0], got[2][0][0])


def cond_holds(cond, n):
    """evaluate a conjunction of normalised LEN literals for LEN = n (literals about anything else count as true)"""
    if cond.strip() == "always":
        return True
    for lit in cond.split(" & "):
        neg = lit.startswith("!")
        body = lit[1:] if neg else lit
        m = re.match(r"^(EQ|GE|LE)\(LEN,(\d+)\)$", body)
        if not m:
            continue
        k = int(m.group(2))
        v = {"EQ": n == k, "GE": n >= k, "LE": n <= k}[m.group(1)]
        if neg:
            v = not v
        if not v:
            return False
    return True


def _eval_cond(c, n):
    """truth of a canonical condition over LEN at LEN = n (None if not decidable here)"""
    c = c.strip()
    m = re.match(r"^Not\((.*)\)$", c)
    if m:
        v = _eval_cond(m.group(1), n)
        return None if v is None else (not v)
    m = re.match(r"^(Eq|Ne|Lt|Le)\((.*)\)$", c)
    if m:
        from .rules_sift import split_top
        a, b = split_top(m.group(2))
        def num(x):
            x = x.strip()
            if x == "LEN":
                return n
            mm = re.match(r"^(\d+)_usize$", x)
            return int(mm.group(1)) if mm else None
        x, y = num(a), num(b)
        if x is None or y is None:
            return None
        return {"Eq": x == y, "Ne": x != y, "Lt": x < y, "Le": x <= y}[m.group(1)]
    if c in ("true", "false"):
        return c == "true"
    return None


def render_return(val, n=None):
    if val.startswith("Option::None"):
        return "None"
    if n is not None:
        # `cond.then_some(v)` and `len.checked_sub(k).map(Position)` evaluated at the length under consideration
        m = re.match(r"^bool::then_some\((.*)\)$", val)
        if m:
            from .rules_sift import split_top
            c, v = split_top(m.group(1))
            t = _eval_cond(c, n)
            if t is not None:
                return render_return("Option::Some(%s)" % v, n) if t else "None"
        m = re.match(r"^std::option::Option::map\(usize::checked_sub\(LEN,(\d+)_usize\),fn:[A-Za-z_:]*Position(::Position)?\)$", val)
        if m:
            k = int(m.group(1))
            return "Some(%d)" % (n - k) if n >= k else "None"
    if n is not None and "LEN" in val:
        # a position computed from the length (`Position(len - 1)`), evaluated at the length under consideration
        def ev(m):
            k = int(m.group(2))
            v = n - k if m.group(1).startswith("Sub") else n + k
            return "%d_usize" % v if v >= 0 else m.group(0)
        val = re.sub(r"(SubWithOverflow|SubUnchecked|Sub|AddWithOverflow|AddUnchecked|Add)\(LEN,(\d+)_usize\)(?:\.0)?", ev, val)
        val = re.sub(r"(AddWithOverflow|AddUnchecked|Add)\((\d+)_usize,LEN\)(?:\.0)?", lambda m: "%d_usize" % (n + int(m.group(2))), val)
    m = re.match(r"^Option::Some\(Position::Position\((\d+)_usize\)\)$", val)
    if m:
        return "Some(%s)" % m.group(1)
    if "max_by_key" in val and "array(Position::Position(1_usize),Position::Position(2_usize))" in val and "get_priority_from_position" in val:
        return "Some(max{1,2})"
    return val[:60]


def arm_value(view, f, bb):
    """value assigned to the return place on the straight-line code starting at bb"""
    vp = view.vp
    seen = set()
    while bb not in seen:
        seen.add(bb)
        b = f.blocks[bb]
        for s in b["stmts"]:
            if s["k"] == "assign" and s["place"]["local"] == 0 and not s["place"]["proj"]:
                t = vp.rvalue(f, s["rv"])
                return render_arm(t)
        t = b["term"]
        if t["k"] == "goto":
            bb = t["target"]
        elif t["k"] == "call" and t["target"] is not None:
            bb = t["target"]
        else:
            return "?"
    return "?"


def render_arm(t):
    if t[0] == "adt" and t[2] == "None":
        return "None"
    if t[0] == "adt" and t[2] == "Some":
        x = strip(t[3][0])
        if x[0] == "adt" and x[1].endswith("Position"):
            return "Some(%s)" % const_int(strip(x[3][0]))
        # *[Position(1), Position(2)].iter().max_by_key(..).unwrap()
        names = [y[1].split("::")[-1] for y in walk(x) if y[0] == "call"]
        arr = [y for y in walk(x) if y[0] == "array"]
        if "max_by_key" in names and arr:
            els = []
            for e in arr[0][1]:
                e = strip(e)
                if e[0] == "adt" and e[1].endswith("Position"):
                    els.append(const_int(strip(e[3][0])))
            return "Some(max{%s} by priority)" % ",".join(str(e) for e in els)
        if "min_by_key" in names:
            return "Some(min..)"
        return "Some(%s)" % term_str(x)[:50]
    return term_str(t)[:50]
