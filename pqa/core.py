"""Shared analyses over pqfacts JSON: program model, CFG, value provenance (VP),
place classification (PL), events and effects (FX).

Nothing here executes the analysed crate; everything is derived from the MIR facts that the
`pqfacts` rustc driver serialised for /repo's current working tree.
"""
import json
from collections import defaultdict, deque

STORE = "store::Store"
COMPONENTS = ("map", "heap", "qp", "size")


# ------------------------------------------------------------------------------------------
# program model
# ------------------------------------------------------------------------------------------
class Fn:
    def __init__(self, prog, j):
        self.prog = prog
        self.j = j
        self.key = j["key"]
        self.kind = j["kind"]
        self.name = j.get("name")
        self.body = j.get("body")
        self.span = j["span"]
        self.is_closure = self.kind == "Closure"
        self.parent_fn = j.get("parent_fn")
        self.exported = bool(j.get("exported"))
        self.blocks = self.body["blocks"] if self.body else []
        self.locals = self.body["locals"] if self.body else []
        self._defs = None
        self._raw_defs = None
        self._cfg = None
        self._cfg_building = False
        self._vp_cache = {}

    # ---- basic accessors
    def loc(self, span=None):
        s = span or self.span
        return "%s:%d" % (s["file"], s["line"])

    def term(self, bb):
        return self.blocks[bb]["term"]

    def calls(self):
        """yield (bb, term) for every call terminator on non-cleanup blocks"""
        live = self.cfg.reach
        for i, b in enumerate(self.blocks):
            if b["cleanup"] or i not in live:
                continue   # cleanup, or unreachable once constant conditions are folded
            t = b["term"]
            if t["k"] == "call":
                yield i, t

    def local_ty(self, l):
        return self.locals[l]["ty"]

    def local_name(self, l):
        return self.locals[l]["name"]

    @property
    def arg_count(self):
        return self.body["arg_count"] if self.body else 0

    # ---- definitions of locals
    def _compute_defs(self, live):
        d = defaultdict(list)
        p = defaultdict(list)
        for bi, b in enumerate(self.blocks):
            if b["cleanup"] or (live is not None and bi not in live):
                continue
            for si, s in enumerate(b["stmts"]):
                if s["k"] == "assign":
                    pl = s["place"]
                    if not pl["proj"]:
                        d[pl["local"]].append(("stmt", bi, si, s))
                    else:
                        p[pl["local"]].append(("stmt", bi, si, s))
            t = b["term"]
            if t["k"] == "call":
                pl = t["dest"]
                if not pl["proj"]:
                    d[pl["local"]].append(("call", bi, t))
                else:
                    p[pl["local"]].append(("call", bi, t))
        return d, p

    @property
    def defs(self):
        """local -> list of ('stmt', bb, idx, stmt) | ('call', bb, term) whole-local definitions in reachable blocks
        (unreachable = cleanup, or cut off once constant conditions are folded); partial writes (through projections)
        are recorded in self.partial.  While the CFG itself is being built the unfiltered definitions are used."""
        if self._defs is None:
            if self._cfg is None and not self._cfg_building:
                _ = self.cfg
            if self._cfg is None:
                if self._raw_defs is None:
                    self._raw_defs = self._compute_defs(None)
                    self.partial = self._raw_defs[1]
                return self._raw_defs[0]
            self._defs, self.partial = self._compute_defs(self._cfg.reach)
        return self._defs

    @property
    def cfg(self):
        if self._cfg is None:
            self._cfg_building = True
            try:
                c = CFG(self)
            finally:
                self._cfg_building = False
            self._cfg = c
            self._defs = None
            self._vp_cache = {}   # values computed from the unfiltered definitions while the CFG was being built
        return self._cfg

    def promoted_fn(self, n):
        """pseudo-function for the n-th promoted constant body of this function"""
        ps = self.j.get("promoted") or []
        if n >= len(ps):
            return None
        if not hasattr(self, "_prom"):
            self._prom = {}
        if n not in self._prom:
            self._prom[n] = Fn(self.prog, {"key": "%s::promoted[%d]" % (self.key, n), "kind": "Promoted",
                                           "span": self.span, "body": ps[n]})
        return self._prom[n]


CARRIER = {"store", "pq"}   # field names that hold the Store / a queue (extended by every loaded Program)


def re_strip_refs(s):
    s = s.strip()
    while s.startswith("&") or s.startswith("*"):
        s = _re.sub(r"^(&('[a-z_]+ )?(mut )?|\*(mut|const) )", "", s).strip()
    return s


class Program:
    def __init__(self, path, config):
        self.config = config
        text = open(path).read()
        # no_std builds name the same items through `core::` / `alloc::`: normalise to the `std::` paths
        text = _re.sub(r'(?<![A-Za-z0-9_])(?:core|alloc)::', 'std::', text)
        self.j = json.loads(text)
        self.reloc_report = []
        if config != "fixture":
            import os as _os0
            try:
                shapes = json.load(open(_os0.path.join(_os0.path.dirname(_os0.path.dirname(_os0.path.abspath(__file__))), "rules", "known_adt_shapes.json")))
            except OSError:
                shapes = None
            if shapes:
                from .inline import relocate_adts
                text2, self.reloc_report = relocate_adts(text, self.j, shapes)
                if self.reloc_report:
                    self.j = json.loads(text2)
        self.inline_report = None
        self.alias_report = []
        self.closure_report = []
        self._split_duplicate_keys()
        if config != "fixture":
            from .inline import inline_new_helpers
            import os as _os
            kp = _os.path.join(_os.path.dirname(_os.path.dirname(_os.path.abspath(__file__))), "rules", "known_functions.json")
            try:
                known = set(json.load(open(kp)))
            except OSError:
                known = None
            if known:
                from .inline import alias_moved
                sp = _os.path.join(_os.path.dirname(kp), "known_signatures.json")
                try:
                    sigs = json.load(open(sp))
                except OSError:
                    sigs = {}
                self.alias_report = alias_moved(self.j, known, sigs)
                self.inline_report = inline_new_helpers(self.j, known)
                try:
                    kc = set(json.load(open(_os.path.join(_os.path.dirname(kp), "known_closures.json"))))
                except OSError:
                    kc = None
                if kc is not None:
                    from .closures import expand_closures
                    self.closure_report = expand_closures(self.j, kc)
        # crate structs that are not part of the reviewed inventory (a private result struct introduced instead of a tuple)
        # are read as tuples: field k of the struct is component k
        self.new_structs = set()
        try:
            ka = set(json.load(open(_os.path.join(_os.path.dirname(_os.path.dirname(_os.path.abspath(__file__))), "rules", "known_adts.json")))) if config != "fixture" else None
        except (OSError, NameError):
            ka = None
        if ka:
            for a in self.j["adts"]:
                if a["path"] not in ka and len(a.get("variants", [])) == 1 and a.get("kind", "struct") in ("struct", "Struct"):
                    # pure data carriers only: a new type with behaviour of its own (an iterator, a guard) keeps its fields
                    has_impl = any((im.get("self_desc") or "").split("<")[0] == a["path"] and not im.get("auto_derived") for im in self.j["impls"])
                    if not has_impl:
                        self.new_structs.add(a["path"])
        self.fns = {}
        dup = set()
        for f in self.j["fns"]:
            if f["key"] in self.fns:
                dup.add(f["key"])
            self.fns[f["key"]] = Fn(self, f)
        self.duplicate_keys = dup
        self.adts = {a["path"]: a for a in self.j["adts"]}
        self.impls = self.j["impls"]
        self._closure_sites = None
        self._fx = None
        self._vp0 = None
        CARRIER.update(self.carrier_fields)

    @property
    def carrier_fields(self):
        """names of the fields of crate types that hold (a reference to) the Store or one of the queues: `store`, and the
        `pq` of the iterator structs under whatever name they have now"""
        if getattr(self, "_carrier", None) is None:
            out = {"store"}
            want = ("store::Store", "priority_queue::PriorityQueue", "double_priority_queue::DoublePriorityQueue")

            def head(ty):
                while isinstance(ty, dict) and ty.get("k") in ("ref", "ptr") and ty.get("inner"):
                    ty = ty["inner"]
                return ty
            for a in self.j["adts"]:
                for v in a.get("variants", []):
                    for f in v.get("fields", []):
                        ty = head(f.get("ty") or {})
                        if isinstance(ty, dict) and ty.get("k") == "adt" and ty.get("path") in want:
                            out.add(f["name"])
                        else:
                            sdesc = re_strip_refs((f.get("ty") or {}).get("s") or "")
                            if sdesc.split("<")[0] in want:
                                out.add(f["name"])
            self._carrier = out
        return self._carrier

    @property
    def vp0(self):
        if self._vp0 is None:
            self._vp0 = VP(self)
        return self._vp0

    def _split_duplicate_keys(self):
        """two impls of one trait for one type that differ only in what the key abbreviates (`Extend<(I, P)>` and a new
        `Extend<(&I, &P)>`): the reviewed one (by its full path) keeps the key, the other gets a suffix"""
        import os as _os2
        by = {}
        for f in self.j["fns"]:
            if f.get("kind") != "Closure":
                by.setdefault(f["key"], []).append(f)
        dups = {k: v for k, v in by.items() if len(v) > 1}
        self.renamed_duplicates = []
        if not dups:
            return
        try:
            sigs = json.load(open(_os2.path.join(_os2.path.dirname(_os2.path.dirname(_os2.path.abspath(__file__))), "rules", "known_signatures.json")))
        except OSError:
            sigs = {}
        for k, fs in dups.items():
            want = (sigs.get(k) or {}).get("path")
            keep = next((f for f in fs if want and f.get("path") == want), fs[0])
            n = 1
            for f in fs:
                if f is keep:
                    continue
                n += 1
                newk = "%s#%d" % (k, n)
                oldpath = f.get("path") or ""
                f["key"] = newk
                for g in self.j["fns"]:
                    if g.get("kind") == "Closure" and (g.get("path") or "").startswith(oldpath + "::") and g.get("parent_fn", "").startswith(k):
                        g["key"] = newk + g["key"][len(k):] if g["key"].startswith(k) else g["key"]
                        g["parent_fn"] = newk + g["parent_fn"][len(k):] if g["parent_fn"].startswith(k) else g["parent_fn"]
                self.renamed_duplicates.append("%s (%s) -> %s" % (k, oldpath, newk))

    def fn(self, key):
        return self.fns.get(key)

    def closures_of(self, key):
        return [f for f in self.fns.values() if f.is_closure and f.parent_fn == key]

    def family(self, key):
        """a function and (transitively) the closures defined inside it"""
        out = []
        todo = [key]
        while todo:
            k = todo.pop()
            f = self.fns.get(k)
            if f is None:
                continue
            out.append(f)
            todo.extend(c.key for c in self.closures_of(k))
        return out

    # closure creation sites: closure key -> (parent Fn, bb, stmt idx, aggregate rvalue, dest local)
    @property
    def closure_sites(self):
        if self._closure_sites is None:
            m = {}
            for f in self.fns.values():
                for bi, b in enumerate(f.blocks):
                    for si, s in enumerate(b["stmts"]):
                        if s["k"] == "assign" and s["rv"]["k"] == "aggregate" and s["rv"].get("agg") == "closure":
                            m[s["rv"]["def"]] = (f, bi, si, s["rv"], s["place"]["local"])
            self._closure_sites = m
        return self._closure_sites

    def universe(self):
        nf = len(self.fns)
        nb = sum(1 for f in self.fns.values() if f.body)
        ncalls = sum(1 for f in self.fns.values() for _ in f.calls())
        nblocks = sum(len(f.blocks) for f in self.fns.values())
        return {"functions": nf, "bodies": nb, "call_sites": ncalls, "basic_blocks": nblocks,
                "impls": len(self.impls), "adts": len(self.adts)}


# ------------------------------------------------------------------------------------------
# CFG (normal edges only: unwind edges and cleanup blocks are excluded)
# ------------------------------------------------------------------------------------------
class CFG:
    def __init__(self, fn):
        self.fn = fn
        n = len(fn.blocks)
        self.n = n
        self.succ = [[] for _ in range(n)]
        self.pred = [[] for _ in range(n)]
        self.edge_label = {}
        for i, b in enumerate(fn.blocks):
            if b["cleanup"]:
                continue
            t = b["term"]
            k = t["k"]
            outs = []
            if k == "goto":
                outs = [(t["target"], None)]
            elif k == "switch":
                outs = [(bb, v) for v, bb in t["targets"]] + [(t["otherwise"], "otherwise")]
                d = t["discr"]
                if d["k"] in ("copy", "move") and not d["place"]["proj"]:
                    # a temporary holding a literal (`_5 = const false; switchInt(move _5)`)
                    ds = fn.defs.get(d["place"]["local"], [])
                    if len(ds) == 1 and ds[0][0] == "stmt" and ds[0][3]["rv"]["k"] == "use" and ds[0][3]["rv"]["op"]["k"] == "const" \
                            and not fn.locals[d["place"]["local"]]["name"]:
                        d = ds[0][3]["rv"]["op"]
                if d["k"] != "const" and getattr(fn.prog, "const_switches", True) and fn.prog is not None and hasattr(fn.prog, "fns"):
                    # a condition that is a constant through single assignments, closure captures and the arguments of an
                    # inlined helper (`helper(.., true)`): only the matching edge is real
                    try:
                        tv = strip(fn.prog.vp0.operand(fn, d))
                    except (RecursionError, KeyError, IndexError, TypeError):
                        tv = None
                    hops = 0
                    while tv is not None and tv[0] in ("ref", "deref") and hops < 4:
                        tv = strip(tv[1])
                        hops += 1
                    if tv is not None and tv[0] == "const" and isinstance(tv[1], str):
                        d = {"k": "const", "s": tv[1]}
                if d["k"] == "const":
                    # `if cfg!(debug_assertions)` / `if false`: only the matching edge is real
                    cv = {"const false": 0, "false": 0, "const true": 1, "true": 1}.get(d["s"], const_int(("const", d["s"])))
                    if cv is not None:
                        hit = [(bb, v) for v, bb in t["targets"] if v == cv]
                        outs = hit[:1] if hit else [(t["otherwise"], "otherwise")]
            elif k in ("call",):
                if t["target"] is not None:
                    outs = [(t["target"], None)]
            elif k in ("assert", "drop"):
                outs = [(t["target"], None)]
            for (o, lab) in outs:
                ob = fn.blocks[o]
                if ob["term"]["k"] == "unreachable" and not ob["stmts"]:
                    continue  # compiler-generated impossible arm of an exhaustive match
                if o not in self.succ[i]:
                    self.succ[i].append(o)
                    self.pred[o].append(i)
                self.edge_label.setdefault((i, o), []).append(lab)
        self._thread_jumps()
        self.returns = [i for i, b in enumerate(fn.blocks) if not b["cleanup"] and b["term"]["k"] == "return"]
        self.reach = self._reach(0)
        self._dom = None
        self._loops = None

    def _mentions(self, L):
        """how often local L is mentioned in the body (any role)"""
        if not hasattr(self, "_mention_count"):
            cnt = {}

            def walk_(x):
                if isinstance(x, dict):
                    if "local" in x and "proj" in x:
                        cnt[x["local"]] = cnt.get(x["local"], 0) + 1
                    for v in x.values():
                        walk_(v)
                elif isinstance(x, list):
                    for v in x:
                        walk_(v)
            for b in self.fn.blocks:
                walk_(b["stmts"])
                walk_(b["term"])
            self._mention_count = cnt
        return self._mention_count.get(L, 0)

    def _thread_jumps(self):
        """jump threading for the boolean-temporary idioms (`a && b`, `while if a { b } else { false }`):
        a block P that ends by assigning a boolean literal to a temporary L and jumping to an empty block J whose
        terminator is `switch(L)` continues, in effect, at the matching target of J.  Only edges are rewired."""
        fn = self.fn
        changed = True
        rounds = 0
        while changed and rounds < 4:
            changed = False
            rounds += 1
            for j in range(self.n):
                bj = fn.blocks[j]
                if bj["cleanup"] or bj["term"]["k"] != "switch":
                    continue
                d = bj["term"]["discr"]
                if d["k"] not in ("copy", "move") or d["place"]["proj"]:
                    continue
                L = d["place"]["local"]
                if bj["stmts"]:
                    # `let named = a && b; if !named { return }`: the join block copies the named boolean into the temporary it
                    # switches on (a `!` is folded into the switch targets by the compiler).  The copies are dead elsewhere.
                    okc = True
                    for s in reversed(bj["stmts"]):
                        if s["k"] != "assign" or s["place"]["proj"] or s["place"]["local"] != L or fn.locals[L]["name"] \
                                or s["rv"]["k"] != "use" or s["rv"]["op"].get("k") not in ("copy", "move") or s["rv"]["op"]["place"]["proj"] \
                                or fn.locals[L]["ty"]["s"] != "bool" or self._mentions(L) != 2:
                            okc = False
                            break
                        L = s["rv"]["op"]["place"]["local"]
                    if not okc:
                        continue
                elif fn.locals[L]["name"]:
                    continue
                for p in list(self.pred[j]):
                    bp = fn.blocks[p]
                    if bp["term"]["k"] != "goto":
                        continue
                    val = None
                    for s in bp["stmts"]:
                        if s["k"] == "assign" and not s["place"]["proj"] and s["place"]["local"] == L:
                            rv = s["rv"]
                            if rv["k"] == "use" and rv["op"]["k"] == "const" and rv["op"]["s"] in ("const true", "const false", "true", "false"):
                                val = 1 if "true" in rv["op"]["s"] else 0
                            else:
                                val = None
                    if val is None:
                        continue
                    tgt = None
                    for v, tb in bj["term"]["targets"]:
                        if v == val:
                            tgt = tb
                    if tgt is None:
                        tgt = bj["term"]["otherwise"]
                    ob = fn.blocks[tgt]
                    if ob["term"]["k"] == "unreachable" and not ob["stmts"]:
                        continue
                    # rewire p -> j  into  p -> tgt
                    self.succ[p] = [tgt if x == j else x for x in self.succ[p]]
                    self.succ[p] = list(dict.fromkeys(self.succ[p]))
                    if p in self.pred[j]:
                        self.pred[j].remove(p)
                    if p not in self.pred[tgt]:
                        self.pred[tgt].append(p)
                    self.threaded = getattr(self, "threaded", [])
                    self.threaded.append((p, j, tgt))
                    changed = True
        self._thread_options()

    def _thread_options(self):
        """the same for an Option built and matched at once (`while let Some(x) = helper(..)` with the helper inlined):
        a block P whose last definition of a temporary T is the literal `Some(..)` / `None`, and which reaches - through
        empty blocks only - a block J consisting of `d = discriminant(T); switch(d)`, continues at J's target for that
        variant."""
        fn = self.fn
        for j in range(self.n):
            bj = fn.blocks[j]
            if bj["cleanup"] or bj["term"]["k"] != "switch" or len(bj["stmts"]) != 1:
                continue
            s0 = bj["stmts"][0]
            if s0["k"] != "assign" or s0["rv"]["k"] != "discriminant" or s0["place"]["proj"] or s0["rv"]["place"]["proj"]:
                continue
            d = bj["term"]["discr"]
            if d["k"] not in ("copy", "move") or d["place"]["proj"] or d["place"]["local"] != s0["place"]["local"]:
                continue
            if s0["rv"].get("path") != "std::option::Option":
                continue
            T = s0["rv"]["place"]["local"]
            # walk back through empty goto blocks
            front = [(j, None)]
            seen = {j}
            cands = []
            while front:
                x, first = front.pop()
                for p in list(self.pred[x]):
                    if p in seen:
                        continue
                    seen.add(p)
                    bp = fn.blocks[p]
                    if bp["cleanup"] or bp["term"]["k"] != "goto":
                        continue
                    hop = x   # the successor of p on the way to J
                    if not bp["stmts"]:
                        front.append((p, hop))
                        continue
                    cands.append((p, hop))
            for p, hop in cands:
                bp = fn.blocks[p]
                val = None
                for s in bp["stmts"]:
                    if s["k"] == "assign" and s["place"]["local"] == T:
                        rv = s["rv"]
                        if not s["place"]["proj"] and rv["k"] == "aggregate" and rv.get("agg") == "adt" and rv.get("path") == "std::option::Option":
                            val = 1 if rv.get("variant") == "Some" else 0
                        else:
                            val = None
                if val is None:
                    continue
                # the empty blocks between p and J must have no other way in that could carry another value: they are
                # only skipped for p, never removed
                tgt = None
                for v, tb in bj["term"]["targets"]:
                    if v == val:
                        tgt = tb
                if tgt is None:
                    tgt = bj["term"]["otherwise"]
                ob = fn.blocks[tgt]
                if ob["term"]["k"] == "unreachable" and not ob["stmts"]:
                    continue
                self.succ[p] = list(dict.fromkeys(tgt if y == hop else y for y in self.succ[p]))
                if p in self.pred[hop]:
                    self.pred[hop].remove(p)
                if p not in self.pred[tgt]:
                    self.pred[tgt].append(p)
                self.threaded = getattr(self, "threaded", [])
                self.threaded.append((p, j, tgt))

    def _reach(self, start):
        seen = {start}
        dq = deque([start])
        while dq:
            x = dq.popleft()
            for y in self.succ[x]:
                if y not in seen:
                    seen.add(y)
                    dq.append(y)
        return seen

    def reachable_from(self, bb):
        return self._reach(bb)

    @property
    def dom(self):
        """dom[b] = set of blocks dominating b (including b)"""
        if self._dom is None:
            nodes = sorted(self.reach)
            full = set(nodes)
            dom = {b: set(full) for b in nodes}
            dom[0] = {0}
            changed = True
            while changed:
                changed = False
                for b in nodes:
                    if b == 0:
                        continue
                    ps = [p for p in self.pred[b] if p in self.reach]
                    new = set(full)
                    for p in ps:
                        new &= dom[p]
                    new.add(b)
                    if new != dom[b]:
                        dom[b] = new
                        changed = True
            self._dom = dom
        return self._dom

    def dominates(self, a, b):
        return b in self.dom and a in self.dom[b]

    @property
    def loops(self):
        """list of natural loops: dict(header, body=set, backedges=[(a,h)])"""
        if self._loops is None:
            by_header = {}
            for a in self.reach:
                for h in self.succ[a]:
                    if self.dominates(h, a):
                        body = by_header.setdefault(h, {"header": h, "body": {h}, "backedges": []})
                        body["backedges"].append((a, h))
                        # natural loop of back edge a->h
                        st = [a]
                        while st:
                            x = st.pop()
                            if x not in body["body"]:
                                body["body"].add(x)
                                st.extend(p for p in self.pred[x] if p in self.reach)   # blocks cut off by constant folding are in no loop
            self._loops = list(by_header.values())
        return self._loops

    def in_loop(self, bb):
        return [l for l in self.loops if bb in l["body"]]

    # ---- path queries -------------------------------------------------------------------
    def escape_path_from(self, bb, blocked):
        """like escape_path but the path may START in `bb` itself (bb not yet executed): is there a normal path
        bb ... Return avoiding `blocked`?"""
        if bb in blocked:
            return None
        if bb in self.returns:
            return [bb]
        return self.escape_path(bb, blocked)

    def escape_path(self, start_bb, blocked, start_after=True, targets=None, stop_edges=None):
        """Find a normal path from `start_bb` (leaving it) to a Return block (or to any block in
        `targets`) that does not enter any block in `blocked`.  Returns the path (list of bbs) or None.
        `stop_edges`: set of (a,b) edges that may not be taken."""
        goal = set(self.returns) if targets is None else set(targets)
        seen = set()
        prev = {}
        dq = deque()
        for s in self.succ[start_bb]:
            if stop_edges and (start_bb, s) in stop_edges:
                continue
            if s in blocked:
                continue
            if s not in seen:
                seen.add(s)
                prev[s] = start_bb
                dq.append(s)
        if not self.succ[start_bb] and start_bb in goal:
            return [start_bb]
        while dq:
            x = dq.popleft()
            if x in goal:
                path = [x]
                while path[-1] != start_bb:
                    path.append(prev[path[-1]])
                    if len(path) > self.n + 2:
                        break
                return list(reversed(path))
            for y in self.succ[x]:
                if stop_edges and (x, y) in stop_edges:
                    continue
                if y in blocked or y in seen:
                    continue
                seen.add(y)
                prev[y] = x
                dq.append(y)
        return None


# ------------------------------------------------------------------------------------------
# value provenance (VP): backward slice of an operand into a term
# ------------------------------------------------------------------------------------------
# Terms are nested tuples:
#   ("param", fnkey, idx, name)            function parameter (closures: idx 1 is the environment)
#   ("upvar", closurekey, idx, name)       captured variable of a closure
#   ("cparam", closurekey, idx)            explicit parameter of a closure
#   ("const", text)
#   ("field", base, name_or_idx, of_adt)   field projection
#   ("deref", t) ("ref", t, mut) ("rawref", t)
#   ("index", t, idxterm) ("downcast", t, variant)
#   ("call", key, (args...), (fnkey, bb))  result of a call (site included)
#   ("binop", op, a, b) ("unop", op, a) ("cast", kind, t, ty)
#   ("tuple", (..)) ("adt", path, variant, (..)) ("array", (..)) ("closure", key, (..))
#   ("discr", t)
#   ("phi", fnkey, local, name, (alts...)) multiply-defined local
#   ("rec", fnkey, local)                  cycle
#   ("undef", fnkey, local)

import re as _re
_PROMOTED = _re.compile(r"::promoted\[(\d+)\]")


def foreign_expansion(span):
    """code produced by a macro that is NOT defined in the analysed crate (format_args!, debug_assert!, derives ..);
    the expansion of a crate-local `macro_rules!` is ordinary crate code"""
    return bool(span.get("exp")) and not str(span.get("file", "")).startswith("src/")


def _const_text(o):
    return o["s"]


class VP:
    def __init__(self, prog):
        self.prog = prog

    def operand(self, fn, o, stack=None):
        k = o["k"]
        if k in ("copy", "move"):
            return self.place(fn, o["place"], stack)
        if k == "const":
            if "fn" in o:
                return ("fnconst", o["fn"]["key"])
            m = _PROMOTED.search(o["s"])
            if m:
                pf = fn.promoted_fn(int(m.group(1)))
                if pf is not None:
                    return self.local(pf, 0)
            if o.get("eval_newtype"):
                # a named constant of an index newtype (`Position::ROOT`) is the constructor applied to its value
                en = o["eval_newtype"]
                return ("adt", en["path"], en["path"].split("::")[-1], (("const", en["val"]),))
            return ("const", o.get("eval") or o["s"])   # a named integer constant is its value (`usize::BITS`, `const TOP_BIT`)
        return ("other", o.get("s", "?"))

    def place(self, fn, pl, stack=None):
        t = self.local(fn, pl["local"], stack)
        for e in pl["proj"]:
            k = e["k"]
            if k == "deref":
                t = self._deref(t)
            elif k == "field":
                t = self._field(fn, t, e)
            elif k == "index":
                t = ("index", t, self.local(fn, e["local"], stack))
            elif k == "downcast":
                t = ("downcast", t, e["name"])
            elif k == "constidx":
                t = ("index", t, ("const", str(e["offset"])))
            else:
                t = ("proj", t, k)
        return t

    @staticmethod
    def _deref(t):
        if t[0] in ("ref", "rawref"):
            return t[1]
        return ("deref", t)

    def _field(self, fn, base, e):
        name = e.get("name", e["i"])
        if e.get("of") in self.prog.new_structs:
            e = {"k": "field", "i": e["i"], "ty": e.get("ty")}   # a tuple component
            name = e["i"]
        # tuple / aggregate projection folding
        if base[0] == "tuple" and isinstance(e["i"], int) and e["i"] < len(base[1]) and "name" not in e:
            return base[1][e["i"]]
        if base[0] == "adt" and e["i"] < len(base[3]) and e.get("of") == base[1]:
            return base[3][e["i"]]
        # payload of a success variant: `(x as Some).0`, `(branch(x) as Continue).0`  ==  some(x)
        if base[0] == "downcast" and e["i"] == 0:
            if base[2] in ("Some", "Ok"):
                return mk_some(base[1])
            if base[2] == "Continue" and base[1][0] == "call" and base[1][1] == "std::ops::Try::branch" and base[1][2]:
                return mk_some(base[1][2][0])
        # closure environment -> upvar
        if fn.is_closure:
            b = base
            if b[0] == "deref":
                b = b[1]
            if b[0] == "param" and b[1] == fn.key and b[2] == 1 and "name" not in e:
                uname = None
                for u in fn.body["upvars"]:
                    pr = u["place"]["proj"]
                    fi = [x for x in pr if x["k"] == "field"]
                    if u["place"]["local"] == 1 and fi and fi[0]["i"] == e["i"]:
                        uname = u["name"]
                        break
                return self.resolve_upvar(fn, e["i"], uname)
        return ("field", base, name, e.get("of"))

    def resolve_upvar(self, cl, idx, name):
        site = self.prog.closure_sites.get(cl.key)
        if site is None:
            return ("upvar", cl.key, idx, name)
        pf, bi, si, rv, _ = site
        if idx >= len(rv["ops"]):
            return ("upvar", cl.key, idx, name)
        return self.operand(pf, rv["ops"][idx])

    def local(self, fn, l, stack=None):
        key = (fn.key, l)
        c = fn._vp_cache.get(l)
        if c is not None:
            return c
        if stack is None:
            stack = set()
        if key in stack:
            return ("rec", fn.key, l)
        stack = stack | {key}
        lo = fn.locals[l]
        if lo["arg"]:
            if fn.is_closure and l >= 2:
                t = self.resolve_cparam(fn, l, stack)
            else:
                t = ("param", fn.key, l, lo["name"])
            # a parameter that is re-assigned (e.g. `mut position`) becomes a phi with its defs
            ds = fn.defs.get(l, [])
            if ds:
                alts = [t] + [self._def_term(fn, d, stack) for d in ds]
                t = ("phi", fn.key, l, lo["name"], tuple(self._dedup(alts)))
            fn._vp_cache[l] = t
            return t
        ds = fn.defs.get(l, [])
        if not ds:
            t = ("undef", fn.key, l)
        elif len(ds) == 1:
            t = self._def_term(fn, ds[0], stack)
        else:
            alts = [self._def_term(fn, d, stack) for d in ds]
            alts = self._dedup(alts)
            if len(alts) == 1:
                t = alts[0]
            else:
                t = ("phi", fn.key, l, lo["name"], tuple(alts))
        if not _has_rec(t):
            fn._vp_cache[l] = t
        return t

    @staticmethod
    def _dedup(alts):
        out = []
        for a in alts:
            if a not in out:
                out.append(a)
        return out

    def _def_term(self, fn, d, stack):
        if d[0] == "stmt":
            return self.rvalue(fn, d[3]["rv"], stack)
        t = d[2]
        return self.call_term(fn, d[1], t, stack)

    def call_term(self, fn, bb, t, stack=None):
        key = t["func"]["key"] if "func" in t else "<indirect>"
        args = tuple(self.operand(fn, a, stack) for a in t["args"])
        return ("call", key, args, (fn.key, bb))

    def rvalue(self, fn, rv, stack=None):
        k = rv["k"]
        if k == "use":
            return self.operand(fn, rv["op"], stack)
        if k == "ref":
            p = self.place(fn, rv["place"], stack)
            if p[0] == "deref":
                return p[1]  # re-borrow: &*x has the provenance of x
            return ("ref", p, rv["mut"])
        if k == "rawptr":
            p = self.place(fn, rv["place"], stack)
            if p[0] == "deref":
                return ("rawcast", p[1])
            return ("rawref", p)
        if k == "binop":
            return ("binop", rv["op"], self.operand(fn, rv["a"], stack), self.operand(fn, rv["b"], stack))
        if k == "unop":
            return ("unop", rv["op"], self.operand(fn, rv["a"], stack))
        if k == "cast":
            return ("cast", rv["kind"], self.operand(fn, rv["op"], stack), rv["ty"])
        if k == "aggregate":
            ops = tuple(self.operand(fn, o, stack) for o in rv["ops"])
            a = rv["agg"]
            if a == "tuple":
                return ("tuple", ops)
            if a == "adt":
                if rv["path"] in self.prog.new_structs:
                    return ("tuple", ops)
                return ("adt", rv["path"], rv["variant"], ops)
            if a == "array":
                return ("array", ops)
            if a == "closure":
                return ("closure", rv["def"], ops)
            return ("agg", a, ops)
        if k == "discriminant":
            return ("discr", self.place(fn, rv["place"], stack), tuple((v, n) for v, n in rv.get("variants", [])))
        if k == "repeat":
            return ("repeat", self.operand(fn, rv["op"], stack))
        return ("other", k)

    # ---- closure parameters: what flows into them -----------------------------------------
    def resolve_cparam(self, cl, l, stack):
        """closure explicit parameter -> the value the combinator passes.  For Option::{map,and_then,
        map_or,...} that is the Some-payload of the receiver."""
        use = self.closure_use(cl.key)
        if use is None:
            return ("cparam", cl.key, l)
        pf, bb, t, argpos = use
        callee = t["func"]["key"] if "func" in t else "<indirect>"
        if callee in OPTION_PAYLOAD_COMBINATORS and argpos >= 1:
            recv = self.operand(pf, t["args"][0], stack)
            payload = mk_some(recv)
            nargs = cl.arg_count - 1
            if nargs == 1:
                return payload
            return ("field", payload, l - 2, None)
        return ("cparam", cl.key, l, callee)

    def closure_use(self, clkey):
        """where does the closure value flow?  -> (parent Fn, bb, call term, arg position) or None"""
        site = self.prog.closure_sites.get(clkey)
        if site is None:
            return None
        pf, bi, si, rv, dest = site
        # follow the closure value through moves to a call argument
        holders = {dest}
        changed = True
        while changed:
            changed = False
            for b in pf.blocks:
                for s in b["stmts"]:
                    if s["k"] == "assign" and not s["place"]["proj"] and s["rv"]["k"] == "use":
                        o = s["rv"]["op"]
                        if o["k"] in ("copy", "move") and not o["place"]["proj"] and o["place"]["local"] in holders:
                            if s["place"]["local"] not in holders:
                                holders.add(s["place"]["local"])
                                changed = True
        for bb, t in pf.calls():
            for i, a in enumerate(t["args"]):
                if a["k"] in ("copy", "move") and not a["place"]["proj"] and a["place"]["local"] in holders:
                    return (pf, bb, t, i)
        return None


OPTION_PAYLOAD_COMBINATORS = {
    "std::option::Option::map", "std::option::Option::and_then", "std::option::Option::map_or",
    "std::option::Option::map_or_else", "std::option::Option::is_some_and", "std::option::Option::filter",
    "std::option::Option::inspect", "std::option::Option::is_none_or",
}


def _has_rec(t):
    if not isinstance(t, tuple):
        return False
    if t and t[0] == "rec":
        return True
    return any(_has_rec(x) for x in t if isinstance(x, tuple))


def walk(t):
    """pre-order walk over all sub-terms"""
    if isinstance(t, tuple):
        if t and isinstance(t[0], str):
            yield t
        for x in t:
            if isinstance(x, tuple):
                for y in walk(x):
                    yield y


def strip(t):
    """strip reference noise: ref/deref/rawref, Deref::deref, as_slice etc. (provenance-preserving views)"""
    while True:
        if t[0] in ("ref", "rawref", "deref", "rawcast"):
            t = t[1]
            continue
        if t[0] == "defat" and t[2][0] != "defat" and False:
            t = t[2]
            continue
        if t[0] == "call" and t[1] in VIEW_CALLS and t[2]:
            t = t[2][0]
            continue
        if t[0] == "cast" and t[1].startswith("PointerCoercion"):
            t = t[2]
            continue
        return t


VIEW_CALLS = {
    "std::ops::Deref::deref", "std::ops::DerefMut::deref_mut",
    "std::vec::Vec::as_slice", "std::vec::Vec::as_mut_slice",
    "std::convert::AsRef::as_ref", "std::convert::AsMut::as_mut",
    "std::borrow::Borrow::borrow", "std::borrow::BorrowMut::borrow_mut",
    "<std::vec::Vec as Deref>::deref", "<std::vec::Vec as DerefMut>::deref_mut",
}


def component(t):
    """-> (component name, root term) if `t` denotes (a view of) one of the four Store components"""
    t = strip(t)
    if t[0] == "phi":
        cs = {component(a) for a in t[4]}
        cs.discard(None)
        if len(cs) == 1:
            return cs.pop()
        return None
    if t[0] == "field" and t[3] == STORE and t[2] in COMPONENTS:
        return (t[2], strip(t[1]))
    return None


def comp_name(t):
    c = component(t)
    return c[0] if c else None


def is_const(t, val=None):
    t = strip(t) if t and t[0] in ("ref", "deref") else t
    if t[0] != "const":
        return False
    if val is None:
        return True
    return const_int(t) == val


def const_int(t):
    if t[0] != "const":
        return None
    s = t[1]
    if s.startswith("const "):
        s = s[6:]
    for suf in ("_usize", "_u32", "_u64", "_i32", "_isize", "_u8", "_u128", "_i64"):
        if s.endswith(suf):
            s = s[: -len(suf)]
    try:
        return int(s)
    except ValueError:
        return None


def term_str(t, depth=0):
    """compact rendering for reports"""
    if not isinstance(t, tuple):
        return str(t)
    if depth > 6:
        return "…"
    if not t:
        return "()"
    if not isinstance(t[0], str):
        return "(%s)" % ", ".join(term_str(x, depth + 1) for x in t)
    k = t[0]
    if k == "mu":
        return "μ[%s]" % " | ".join(term_str(a, depth + 1) for a in t[1][:4])
    if k == "rec" and len(t) == 2:
        return "↺"
    if k == "defat":
        return term_str(t[2], depth)
    r = lambda x: term_str(x, depth + 1)
    if k == "param":
        return "param:%s" % (t[3] or t[2])
    if k == "const":
        return t[1].replace("const ", "")
    if k == "field":
        return "%s.%s" % (r(t[1]), t[2])
    if k in ("deref",):
        return "*%s" % r(t[1])
    if k in ("ref", "rawref", "rawcast"):
        return "&%s" % r(t[1])
    if k == "call":
        return "%s(%s)" % (t[1].split("::")[-1] if not t[1].startswith("<") else t[1], ", ".join(r(a) for a in t[2]))
    if k == "binop":
        return "%s(%s, %s)" % (t[1], r(t[2]), r(t[3]))
    if k == "phi":
        return "φ%s[%s]" % (t[3] or t[2], " | ".join(r(a) for a in t[4][:4]))
    if k == "some":
        return "some(%s)" % r(t[1])
    if k == "adt":
        return "%s(%s)" % (t[1].split("::")[-1], ", ".join(r(a) for a in t[3]))
    if k == "tuple":
        return "(%s)" % ", ".join(r(a) for a in t[1])
    if k == "downcast":
        return "%s as %s" % (r(t[1]), t[2])
    if k == "rec":
        return "↺_%s" % t[2]
    if k == "cast":
        return "cast(%s)" % r(t[2])
    return "%s(%s)" % (k, ", ".join(r(x) if isinstance(x, tuple) else str(x) for x in t[1:]))


PRESENT_VARIANTS = {"Some", "Ok", "Continue", "Occupied"}
ABSENT_VARIANTS = {"None", "Err", "Break", "Vacant"}


def edge_variants(d, t, target):
    """names of the enum variants for which the switch `t` (on discriminant term `d`) goes to `target`"""
    if d[0] != "discr" or len(d) < 3 or not d[2]:
        return None
    names = dict(d[2])
    listed = [v for v, _ in t["targets"]]
    out = set()
    for v, tb in t["targets"]:
        if tb == target and v in names:
            out.add(names[v])
    if t["otherwise"] == target:
        out |= {n for v, n in names.items() if v not in listed}
    return out


def edge_presence(d, t, target):
    """'present' / 'absent' / None for an edge of a switch on an Option / Result / ControlFlow / Entry discriminant"""
    vs = edge_variants(d, t, target)
    if not vs:
        return None
    if vs <= PRESENT_VARIANTS:
        return "present"
    if vs <= ABSENT_VARIANTS:
        return "absent"
    return None


def mk_some(x):
    """payload of a success value: when the Option is a literal `Some(v)` (or a join of such literals and `None`)
    the payload is v itself"""
    y = x
    while y[0] == "defat":
        y = y[2]
    if y[0] == "adt" and y[1] in ("std::option::Option", "std::result::Result") and y[2] in ("Some", "Ok") and len(y[3]) == 1:
        return y[3][0]
    # the success payload of `a.checked_sub(b)` / `a.checked_add(b)` is a - b / a + b
    if y[0] == "call" and len(y[2]) == 2 and y[1] in ("usize::checked_sub", "usize::checked_add"):
        return ("binop", "Sub" if y[1].endswith("checked_sub") else "Add", y[2][0], y[2][1])
    if y[0] in ("phi", "mu"):
        alts = y[4] if y[0] == "phi" else y[1]
        pay = []
        for a in alts:
            while a[0] == "defat":
                a = a[2]
            if a[0] == "adt" and a[1] == "std::option::Option":
                if a[2] == "Some" and len(a[3]) == 1:
                    pay.append(a[3][0])
                continue
            return ("some", x)
        if len(pay) == 1:
            return pay[0]
    return ("some", x)


def subst_params(t, callee_key, args):
    """replace ("param", callee_key, i, _) by args[i-1] everywhere in term t"""
    if not isinstance(t, tuple) or not t:
        return t
    if isinstance(t[0], str):
        if t[0] == "param" and t[1] == callee_key and isinstance(t[2], int) and 1 <= t[2] <= len(args):
            return args[t[2] - 1]
        if t[0] == "deref":
            inner = subst_params(t[1], callee_key, args)
            if inner[0] in ("ref", "rawref"):
                return inner[1]
            return ("deref", inner)
    return tuple(subst_params(x, callee_key, args) if isinstance(x, tuple) else x for x in t)


def deep_ret(view, f, depth=4):
    """return term of f with calls to crate functions replaced by THEIR return terms (parameters substituted):
    interprocedural provenance for forwarding wrappers"""
    return _deep(view, view.vp.local(f, 0), depth)


def _deep(view, t, depth):
    if not isinstance(t, tuple) or not t or depth < 0:
        return t
    if isinstance(t[0], str) and t[0] == "call" and len(t) > 3 and t[3]:
        fnkey, bb = t[3]
        g = view.prog.fn(fnkey)
        if g is not None and g.term(bb)["k"] == "call":
            ci = view.fx.call_info(g, bb)
            if ci.local_callee:
                callee = view.prog.fn(ci.local_callee)
                if callee is not None and callee.body and not callee.cfg.loops and depth > 0:
                    args = tuple(_deep(view, a, depth - 1) for a in t[2])
                    r = view.vp.local(callee, 0)
                    return _deep(view, subst_params(r, callee.key, args), depth - 1)
    return tuple(_deep(view, x, depth) if isinstance(x, tuple) else x for x in t)
